#!/bin/sh
# Offline setup: make sure hypothesis is importable beside placement in /venv.
set -e
cd "$(dirname "$0")"
if ! /venv/bin/python -c "import hypothesis" 2>/dev/null; then
  PIP_NO_INDEX=1 /venv/bin/pip install --no-index --find-links /opt/veriftools/wheels hypothesis
fi
/venv/bin/python -c "import hypothesis, placement, webob, sqlalchemy; print('hypothesis', hypothesis.__version__)"
mkdir -p evidence replays
