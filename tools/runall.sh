#!/bin/sh
# usage: tools/runall.sh [quick|thorough] [Cnn ...]  -> runs the checks one after another, one summary line each
cd "$(dirname "$0")/.."
TIER=${1:-quick}; shift
IDS="$@"; [ -z "$IDS" ] && IDS="C01 C02 C03 C04 C05 C06 C07 C08 C09 C10 C11 C12 C13 C14 C15 C16 C17 C18 C19 C20"
for c in $IDS; do
  out=$(./check $c --tier $TIER 2>&1); rc=$?
  echo "$out" | grep "^C[0-9]* tier\|^VIOLATION\|^KNOWN-FINDING\|^INCONCLUSIVE" | cut -c1-200
  echo "$c rc=$rc harness_errors=$(echo "$out" | grep -c HARNESS-ERROR)"
done
