#!/bin/sh
# usage: tools/selftest.sh <mutant.diff> <Cnn> [<Cnn>...]  -> prints which checks catch the mutant
M="$1"; shift
for c in "$@"; do
  out=$(tools/with_mutant.sh "$M" -- ./check "$c" 2>&1)
  rc=$(echo "$out" | grep -o "mutant-run rc=[0-9]*" | cut -d= -f2)
  v=$(echo "$out" | grep -c "^VIOLATION"); he=$(echo "$out" | grep -c "HARNESS-ERROR")
  echo "$(basename $M .diff) $c rc=$rc violations=$v harness_errors=$he $(echo "$out" | grep '^C[0-9][0-9] tier' | sed 's/.*wall=/wall=/')"
done
