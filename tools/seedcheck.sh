#!/bin/sh
# usage: tools/seedcheck.sh <seed-dir> <n>   e.g. tools/seedcheck.sh /tmp/seed-C12 1
# Confirms a seeded change in a scratch worktree: patch applies, the pinned
# suite still has 361 passes, demoN fails with the patch and passes without.
D="$1"; N="$2"
WT=$(mktemp -d /tmp/seedwt-XXXXXX); rmdir "$WT"
git -C /repo worktree add -q "$WT" HEAD || exit 2
trap 'git -C /repo worktree remove --force "$WT" >/dev/null 2>&1' EXIT
cd "$WT" || exit 2
git apply "$D/patch$N.diff" || { echo "RESULT $D $N patch-does-not-apply"; exit 1; }
T=$(/venv/bin/python -m pytest -q -p no:cacheprovider --timeout=900 2>&1 | tail -1)
DEMO="$D/demo$N.py"
sed "s#/tmp/wt-C[0-9]*#$WT#g" "$DEMO" > "$WT/.demo.py"
if grep -q "def test_" "$WT/.demo.py" && ! grep -q "__main__" "$WT/.demo.py"; then RUN="/venv/bin/python -m pytest -q -p no:cacheprovider $WT/.demo.py"; else RUN="/venv/bin/python $WT/.demo.py"; fi
$RUN >/tmp/seed-demo-with.log 2>&1; W=$?
git checkout -q -- placement
$RUN >/tmp/seed-demo-without.log 2>&1; WO=$?
echo "RESULT $D patch$N suite=[$T] demo_with_patch_rc=$W demo_without_patch_rc=$WO"
