#!/bin/sh
# usage: tools/q.sh Cnn [tier]  -> one-line summary incl. exit code and harness errors
cd "$(dirname "$0")/.."
out=$(./check "$1" --tier "${2:-quick}" 2>&1); rc=$?
echo "$out" | grep "^C[0-9]* tier\|^VIOLATION\|^KNOWN-FINDING\|^INCONCLUSIVE"
he=$(echo "$out" | grep -c "HARNESS-ERROR")
[ "$he" != "0" ] && echo "$out" | grep -B2 -A12 "HARNESS-ERROR" | head -40
echo "rc=$rc harness_errors=$he"
