#!/bin/sh
# usage: tools/sweep_ordered.sh  -> tools/seedsweep.sh over tools/sweep_order.txt (newest seeding rounds first)
cd "$(dirname "$0")/.."
exec tools/seedsweep.sh $(cat tools/sweep_order.txt)
