#!/bin/sh
# usage: tools/harvest_regress.sh [max-per-property]
# Copies replay files written by sensitivity runs (PV_OUT_DIR=/dev/shm/pv-mutant-out)
# into regress/<Cnn>/ after confirming that each does NOT reproduce on the
# unchanged tree (regression inputs must be quiet there).
cd "$(dirname "$0")/.."
MAX=${1:-20}
SRC=/dev/shm/pv-mutant-out/replays
for p in C01 C02 C03 C04 C05 C06 C07 C08 C09 C10 C11 C12 C13 C14 C15 C16 C17 C18 C19 C20; do
  mkdir -p regress/$p
  have=$(ls regress/$p | wc -l)
  for f in $(ls -S -r $SRC/$p-*.json 2>/dev/null); do
    [ "$have" -ge "$MAX" ] && break
    b=$(basename $f)
    [ -f regress/$p/$b ] && continue
    [ $(stat -c %s $f) -gt 60000 ] && continue
    out=$(./check $p --replay $f 2>&1)
    if echo "$out" | grep -q "did not reproduce"; then
      cp $f regress/$p/$b; have=$((have+1))
    else
      echo "SKIP $b: $(echo "$out" | tail -1 | cut -c1-100)"
    fi
  done
  echo "$p: $have regression inputs"
done
