#!/bin/sh
# usage: tools/seedsweep.sh [seed-id ...]   (default: all of seeded/*)
# Runs every seeded change against the quick check of the property it breaks
# (and the extra checks listed in seeded/<id>/also, if present); one line each.
cd "$(dirname "$0")/.."
IDS="$@"; [ -z "$IDS" ] && IDS=$(ls seeded | grep '^C[0-9]')
for id in $IDS; do
  P=${id%%-*}
  EXTRA=""; [ -f seeded/$id/also ] && EXTRA=$(cat seeded/$id/also)
  for c in $P $EXTRA; do
    tools/selftest.sh seeded/$id/patch.diff $c 2>&1 | grep -v WARN | sed "s#^patch #$id #"
  done
done
