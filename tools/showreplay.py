#!/usr/bin/env python3
import json, sys
for f in sys.argv[1:]:
    d = json.load(open(f)); print(f); print(' sig:', d['signature'])
    det = d['detail'] or {}
    if 'case' in det:
        print('  case:', json.dumps(det['case'])[:1500])
    for k, v in det.items():
        if k != 'case':
            print('  %s: %s' % (k, json.dumps(v)[:1200]))
    r = d['replay']
    if 'state' in r:
        for p in r['state']['providers']:
            print('    ', p['uuid'][:8], 'parent', p['parent'], {k: (v['total'], v['reserved'], v['min_unit'], v['max_unit'], v['step_size'], v['allocation_ratio']) for k, v in p['invs'].items()}, p['traits'], [a[:8] for a in p['aggs']])
        print('    ', r['state']['consumers'])
    if 'steps' in r:
        for s, st in zip(r['steps'], r.get('statuses') or [None] * len(r['steps'])):
            print('    ', s['m'], s['p'], s['v'], json.dumps(s['b'])[:400], '->', st)
