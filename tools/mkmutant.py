#!/usr/bin/env python3
"""usage: mkmutant.py NAME REPO_RELATIVE_FILE  (stdin: OLD\n=====\nNEW)
Writes mutants/NAME.diff replacing the unique occurrence of OLD by NEW."""
import difflib
import sys
name, rel = sys.argv[1], sys.argv[2]
old, new = sys.stdin.read().split('\n=====\n')
new = new.rstrip('\n')
old = old.rstrip('\n')
src = open('/repo/' + rel).read()
assert src.count(old) == 1, 'OLD occurs %d times' % src.count(old)
dst = src.replace(old, new)
d = difflib.unified_diff(src.splitlines(True), dst.splitlines(True),
                         'a/' + rel, 'b/' + rel)
import os
os.makedirs('/verif/mutants', exist_ok=True)
open('/verif/mutants/%s.diff' % name, 'w').write(''.join(d))
print('wrote mutants/%s.diff' % name)
