#!/bin/sh
# usage: tools/mutantsweep.sh   -> runs every mutant against the check of its property
# mutants/revfix/*.diff : the reverse of every fix: commit, regenerated against /repo HEAD
#                         (git revert --no-commit), property from MAP.json
# mutants/cNN_*.diff    : hand-written property-breaking edits
cd "$(dirname "$0")/.."
for m in mutants/revfix/*.diff; do
  p=$(basename $m | cut -d_ -f2)
  tools/selftest.sh $m $p 2>&1 | grep -v WARN
done
for m in mutants/c[0-9][0-9]_*.diff; do
  p=$(basename $m | cut -c1-3 | tr c C)
  tools/selftest.sh $m $p 2>&1 | grep -v WARN
done
