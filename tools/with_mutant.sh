#!/bin/sh
# usage: tools/with_mutant.sh <patch.diff | -e 'python-expr editing files'> -- <command...>
# Copies /repo/placement to a tmpfs scratch dir, applies the patch there, runs
# the command with PV_REPO pointing at the copy, removes the copy.
# Development aid for sensitivity testing; not a registered check.
set -e
PATCH="$(readlink -f "$1")"; shift
[ "$1" = "--" ] && shift
SCR=$(mktemp -d /dev/shm/pv-mut-XXXXXX)
trap 'rm -rf "$SCR"' EXIT
cp -r /repo/placement "$SCR/placement"
find "$SCR" -name __pycache__ -type d -prune -exec rm -rf {} +
( cd "$SCR" && patch -p1 -s < "$PATCH" ) || { echo "mutant-run rc=3 PATCH-DOES-NOT-APPLY"; exit 3; }
set +e
mkdir -p /dev/shm/pv-mutant-out
PV_OUT_DIR=/dev/shm/pv-mutant-out PV_REPO="$SCR" "$@"
RC=$?
echo "mutant-run rc=$RC"
exit $RC
