#!/usr/bin/env python3
"""Regenerate MANIFEST.json from the table below (single source of truth)."""
import json
import os

HERE = os.path.dirname(os.path.dirname(os.path.abspath(__file__)))

CHECKS = {
    'C09': dict(
        engine='api-state-machine', category='exploration', design='4.C09',
        technique='stateful property-based testing (Hypothesis rule-based '
                  'machine) with a raw-SQL forest invariant oracle; ddmin '
                  'shrinking of the request history',
        text='Random histories of provider create/re-parent/un-parent/'
             'rename/delete requests at microversions around 1.14 and 1.37 '
             'are run against the real WSGI pipeline; after every request the '
             'forest invariant, root pointers and the GET/in_tree views are '
             'checked against raw rows. Bounded random exploration: finds '
             'violations, cannot prove absence.',
        note='SQLite file DB; serial requests; pool of 8 providers; '
             'oracle = independent recomputation of roots from parent links'),
    'C01': dict(
        engine='api-state-machine', category='exploration', design='4.C01',
        technique='stateful property-based testing (Hypothesis rule-based '
                  'machine) with raw-SQL capacity/unit invariant oracle over '
                  'before/after dumps',
        text='Random histories building forests and inventories (fractional '
             'ratios, shrinking below usage) and issuing every form of '
             'allocation write incl. multi-consumer POST and reshaper with '
             'amounts biased to capacity/unit boundaries; every accepted write '
             'is checked against the stored inventory (min/max/step, summed '
             'usage <= capacity in IEEE double) and usage growth is attributed '
             'per request. Bounded random exploration.',
        note='SQLite; serial requests; scope <= 8 providers, 4 classes, 6 '
             'consumers; capacity evaluated with the property statement\'s '
             'expression on the stored double'),
    'C04': dict(
        engine='api-state-machine', category='exploration', design='4.C04',
        technique='stateful property-based testing with single-defect request '
                  'variants; oracle = raw dump equality for rejected writes, '
                  'body-vs-rows equality for accepted ones',
        text='Multi-entity writes are generated valid or with one named defect '
             'on a random entry; a rejected write must leave providers, '
             'inventories, allocations, consumers, associations and all '
             'generations byte-identical in the raw dump, an accepted one must '
             'have applied every named entity. Bounded random exploration.',
        note='SQLite; serial; projects/users/consumer types may grow as the '
             'statement allows'),
    'C08': dict(
        engine='api-state-machine', category='exploration', design='4.C08',
        technique='stateful property-based testing with raw-SQL anti-join '
                  'invariants and a before-state oracle for every DELETE',
        text='Histories mixing creation, replacement and deletion of all '
             'entity kinds; after each request no allocation/inventory/'
             'association may reference a missing row and each DELETE is judged '
             '(409/400 + unchanged vs 204 + cascade) from the raw state before '
             'it. Bounded random exploration.',
        note='SQLite (no FK enforcement beyond what placement declares); serial'),
    'C10': dict(
        engine='api-state-machine', category='exploration', design='4.C10',
        technique='stateful property-based testing; oracle = generation deltas '
                  'between raw dumps per request',
        text='All write routes and reads in random histories; strict increase '
             'on every change of inventories/traits/aggregates(>=1.19)/'
             'allocations, no change on reads and rejected requests, no '
             'decrease ever, returned generation == stored == next GET. '
             'Bounded random exploration.',
        note='no-op writes may or may not bump (both accepted); entity '
             'identity = row id'),
    'C12': dict(
        engine='api-state-machine', category='exploration', design='4.C12',
        technique='stateful property-based testing over microversion windows '
                  'and generated config; oracle = raw consumers/allocations '
                  'set equality plus snapshot probe of a null-generation write',
        text='Allocation writing/clearing/deleting histories over 6 consumers '
             'in four microversion windows with generated incomplete-consumer '
             'placeholders; consumers table must equal the set of allocation '
             'holders after every request, attributes must be those of the '
             'last write, and a removed/rejected consumer must be creatable '
             'again with generation null. Bounded random exploration.',
        note='SQLite; serial; probe runs on a snapshot that is restored'),
    'C02': dict(
        engine='candidate-oracle', category='exploration', design='4.C02',
        technique='property-based testing of (state, query, microversion) '
                  'triples: shape predicate by brute-force group assignment, '
                  'round-trip claim (PUT of each returned entry on a snapshot), '
                  'summaries vs raw dump',
        text='Each returned allocation request is explained by an assignment '
             'of the request groups, sent back unchanged as a new consumer\'s '
             'allocations (must be 204 and store exactly those rows) and its '
             'provider summaries are recomputed from raw rows. Bounded random '
             'exploration of states and queries in the C03 scope.',
        note='SQLite; claim executed on a restored snapshot so entries are '
             'independent; <= 12 entries per response'),
    'C03': dict(
        engine='candidate-oracle', category='exploration', design='4.C03',
        technique='differential property-based testing against a brute-force '
                  'declarative reference enumerator (pv/acref.py) with set '
                  'equality of (allocations, mappings)',
        text='Random states (nesting, sharing at root and nested positions, '
             'aggregates, traits, usage) x random valid queries from a grammar '
             'over all filters and request-wide parameters at 1.10-1.39; the '
             'response must equal the reference set exactly (omitted/spurious '
             'reported). Bounded random exploration; the reference encodes the '
             'documents, ambiguities are listed in DESIGN.md.',
        note='trusted: pv/acref.py rules (each cites its source); SQLite'),
    'C13': dict(
        engine='candidate-oracle', category='exploration', design='4.C13',
        technique='differential property-based testing against a set '
                  'comprehension over the raw dump',
        text='Random states x random combinations of name/uuid/in_tree/'
             'member_of/required/resources filters at the versions allowing '
             'each form; result set must equal the comprehension; unknown '
             'names must be 400. Bounded random exploration.',
        note='SQLite; oracle = acref.list_providers'),
    'C20': dict(
        engine='candidate-oracle', category='exploration', design='4.C20',
        technique='metamorphic property-based testing: limited/randomised '
                  'results vs the unlimited result of the same state and query',
        text='For generated cases every limit 1..M+1, both randomisation '
             'settings and several seeds: length min(N, M), sub-multiset of the '
             'unlimited result, correct summaries, stable order when '
             'randomisation is off, permutation when on. Bounded random '
             'exploration.',
        note='unlimited result taken from placement itself (its correctness '
             'is C03); random module seeded by the harness'),
    'C05': dict(
        engine='txn-scheduler', category='exploration', design='4.C05',
        technique='schedule exploration with a harness-owned scheduler '
                  '(bounded-preemption exhaustive + Hypothesis free '
                  'schedules) over generated states/requests; oracle = '
                  'generation sampled by raw SQL at every scheduling point, '
                  'serial-replay equivalence, loser analysis',
        text='2-3 real request threads on one provider are interleaved at '
             'top-level-transaction granularity; every atomic insertion is '
             'enumerated, two-splits and free schedules sampled. Checks: '
             'accepted generation == stored generation before the write '
             'transaction, at most one winner per generation, no 5xx, losers '
             '409 concurrent_update when only the generation is stale, no '
             'committed effect of losers, serial equivalence of winners.',
        note='transactions are atomic and isolated by construction of the '
             'scheduler (serializable-DBMS model); SQLite; not real lock waits'),
    'C06': dict(
        engine='txn-scheduler', category='exploration', design='4.C06',
        technique='schedule exploration (as C05) of 2-3 allocation writers '
                  'sharing a consumer; oracle = consumer generation before '
                  'the write transaction, winner uniqueness, loser analysis, '
                  'serial-replay equivalence',
        text='Concurrent PUT/POST allocations and reshaper requests on one new '
             'or existing consumer with equal, stale or null generations; '
             'checks that a success carried the stored generation, that equal '
             'generations yield at most one success, that losers get 409 '
             'concurrent_update and neither leave nor destroy rows, and that '
             'the final view is the last winner\'s body.',
        note='as C05; serial equivalence only demanded when every carried '
             'generation is plausible for the start state (see DESIGN.md)'),
    'C07': dict(
        engine='txn-scheduler', category='exploration', design='4.C07',
        technique='schedule exploration (as C05) of contending requests with '
                  'correct generations; oracle = serial-replay equivalence '
                  '(commit order first, then all permutations)',
        text='Requests racing for the last units of an inventory, against '
             'inventory shrink/removal, moving usage between consumers, '
             'trait/aggregate updates (server-side retry path), reshapes: the '
             '2xx requests replayed serially must all succeed and reproduce '
             'the concurrent final raw dump exactly.',
        note='as C05'),
    'C17': dict(
        engine='fault-injector', category='fault_enumeration', design='4.C17',
        technique='exhaustive single-fault enumeration over the SQL statements '
                  'of Hypothesis-generated (state, request) pairs; faults '
                  'raised from SQLAlchemy dialect events; oracle = differential '
                  'against the fault-free run from the same snapshot',
        text='For every corpus request every statement index gets every fault '
             'kind (deadlock with/without server rollback, duplicate key, I/O '
             'error; thorough: disconnect). Retry scopes must yield exactly '
             'the fault-free outcome, everything else either that or a '
             'well-formed JSON error with an untouched raw dump. Start-up '
             'synchronisation from empty/partial tables is part of the corpus.',
        note='SQLite + emulated driver errors (no real MySQL/PostgreSQL); '
             'listed known findings F11, F15 are reported as KNOWN-FINDING'),
    'C18': dict(
        engine='fault-injector', category='fault_enumeration', design='4.C18',
        technique='exhaustive crash-point enumeration (fork + os._exit inside '
                  'SQLAlchemy events, SQLite journal recovery) over '
                  'Hypothesis-generated (state, request) pairs; invariant '
                  'oracles on the recovered file',
        text='Every before/after-statement, before-commit and after-'
             'transaction point of every corpus request is a kill point; the '
             'recovered database must satisfy capacity safety, referential '
             'integrity and the forest property and hold either the '
             'pre-request or the completed projection of the invariant-'
             'bearing rows.',
        note='real process death and real SQLite recovery; a server DBMS '
             'rolling back on disconnect is assumed equivalent'),
    'C14': dict(
        engine='surface-enumeration', category='exploration', design='4.C14',
        technique='exhaustive enumeration of (route, method, microversion) and '
                  'of a hand-transcribed versioned-feature table at all 40 '
                  'versions, plus Hypothesis-generated requests replayed across '
                  'versions; oracle = documented availability / feature window '
                  'and the version + Vary response headers',
        text='Every route x 7 methods x {1.0..1.39, latest, none, out-of-range, '
             'malformed} is sent on a fixed fixture and judged against a '
             'hand-written availability table; ~45 versioned features are '
             'probed at all 40 versions (present <=> first <= v <= last); every '
             'response with an accepted version must carry the applied version '
             'and Vary. Exhaustive over the enumerated matrix; the fixture state '
             'and request bodies are fixed.',
        note='tables transcribed from rest_api_version_history.rst and the API '
             'reference; admin caller; SQLite'),
    'C15': dict(
        engine='request-mutator', category='exploration', design='4.C15',
        technique='grammar-based mutation fuzzing of valid requests (Hypothesis '
                  'strategies, structured mutations of JSON/body/header/path/'
                  'query/method) in generated states; oracle = status < 500, '
                  'well-formed error document, unchanged raw dump for '
                  '400/404/405/406/415; failures bucketed by root cause from '
                  'the FaultWrapper log record',
        text='Valid requests for every route (built for generated states incl. '
             'nested sharing providers and over-committed inventories) receive '
             '1-4 mutations from a grammar and are sent through the full '
             'pipeline; any 5xx / escaped exception / malformed error body / '
             'state change on a client error is a violation, collected per '
             'root-cause bucket. Bounded random exploration.',
        note='integers within 64 bits; bodies of a few kB; atheris not used '
             '(>= 5 ms per request in jsonschema leaves no coverage-guidance '
             'throughput, see DESIGN.md)'),
    'C16': dict(
        engine='surface-enumeration', category='exploration', design='4.C16',
        technique='exhaustive enumeration of (operation, caller class, '
                  'existing/missing entity) and of single-rule policy overrides '
                  '("!" and "@") over the whole routing table; oracle = '
                  'expected status hard-coded from the property statement, '
                  'raw-dump equality and no-leak check of refused responses',
        text='Every (route, method) x 7 caller classes x {existing, missing '
             'entity} on a populated fixture, plus every documented policy rule '
             'overridden to "!" and to "@" (re-loaded enforcer), plus the '
             'no-credentials row under auth_strategy=keystone: unauthorised '
             'callers get 401/403, never 2xx, the body leaks no stored '
             'identifier, the raw dump is unchanged, and an override changes '
             'exactly the operations documented for that rule. Exhaustive over '
             'the enumerated matrix at microversion 1.39.',
        note='noauth2 middleware supplies caller classes; keystone token '
             'validation needs a server and is not exercised'),
    'C19': dict(
        engine='api-state-machine', category='exploration', design='4.C19',
        technique='stateful property-based testing (Hypothesis rule-based '
                  'machine) over name-management requests interleaved with '
                  'repeated start-up synchronisation from generated '
                  'empty/partial/full databases; oracle = raw rows vs the '
                  'os_traits / os_resource_classes libraries and a name '
                  'grammar',
        text='Histories of POST/PUT(create, rename <1.7)/DELETE on resource '
             'classes and traits with names from a grammar (valid, existing, '
             'standard, 255/256 long, case, illegal and control characters, '
             'JSON metacharacters, random tails) interleaved with start-ups; '
             'checks presence and fixed ids of all library symbols after each '
             'start-up, idempotence of an immediate second start-up, '
             'immutability of standard rows under every request, well-formed '
             'names and ids >= 10000 for every row an API request adds, '
             '204/409 and no duplicates for existing names; second phase: '
             '2-3 concurrent creations of one new name scheduled at '
             'transaction granularity (exactly one 201, others 204/409, one '
             'row). Bounded random '
             'exploration.',
        note='start-up = deploy.update_database() with the per-process flags '
             'reset; partial databases made with raw SQL; SQLite'),
    'C11': dict(
        engine='api-state-machine', category='exploration', design='4.C11',
        technique='model-based stateful property-based testing: a reference '
                  'model of the API (pv/model.py, written from the API '
                  'reference) predicts the allowed statuses, the state '
                  'transition and every read view; compared with the real '
                  'responses and raw rows after every step, plus cross-view '
                  'identities on read sweeps',
        text='Random histories over all routes and microversions 1.0-1.39 '
             '(valid requests and named single-defect variants) interleaved '
             'with reads of every view: status must be one the documented '
             'meaning prescribes, a success must transform the raw rows '
             'exactly as the model says, a refusal must leave them unchanged, '
             'each GET body must equal the view derived from the rows, and '
             'provider usages / per-provider / per-consumer / per-project '
             'views must agree with each other. Bounded random exploration.',
        note='trusted: pv/model.py; where the documents leave the error '
             'status open the model accepts each documented one; generation '
             'values are taken from the rows (their evolution is C10); SQLite'),
}

NOT_APPLICABLE = {}


def main():
    checks = []
    for pid in sorted(CHECKS):
        c = CHECKS[pid]
        checks.append({
            'property_id': pid,
            'quick_cmd': './check %s --tier quick' % pid,
            'thorough_cmd': './check %s --tier thorough' % pid,
            'evidence_file': 'evidence/%s.json' % pid,
            'replay_cmd_template': './check %s --replay {path}' % pid,
            'engine': c['engine'],
            'level_claimed': {'category': c['category'], 'text': c['text'],
                              'design_ref': 'DESIGN.md section ' + c['design']},
            'level_note': c['note'],
            'technique': c['technique'],
        })
    props = [json.loads(l)['id'] for l in open(os.path.join(HERE, 'properties.jsonl'))]
    na = []
    for pid in props:
        if pid not in CHECKS:
            na.append({'property_id': pid,
                       'reason': NOT_APPLICABLE.get(
                           pid, 'check not yet implemented in this snapshot '
                                '(planned, see DESIGN.md section 4)')})
    manifest = {
        'version': 1,
        'setup_cmd': './setup.sh',
        'hooks': {
            'guard': 'OPENSTACK_PLACEMENT_VERIF',
            'enable': 'no hooks exist: all observation and fault injection is '
                      'done from outside placement (SQLAlchemy/oslo.db events '
                      'registered by the harness, raw sqlite3 reads); checks '
                      'import placement from /repo (PV_REPO) as it is',
            'baseline_off_cmd': 'cd /repo && /venv/bin/python -m pytest -ra -q '
                                '-p no:cacheprovider --timeout=900 '
                                '--continue-on-collection-errors',
            'source_commits': [],
            'add_only': True,
        },
        'engines': [
            {'name': 'api-state-machine', 'path': 'pv/machine.py',
             'serves_properties': ['C01', 'C04', 'C08', 'C09', 'C10', 'C11',
                                   'C12', 'C19'],
             'kind_free_text': 'Hypothesis RuleBasedStateMachine driving the '
                               'real WSGI app; raw-SQL oracles'},
            {'name': 'candidate-oracle', 'path': 'pv/engb.py',
             'serves_properties': ['C02', 'C03', 'C13', 'C20'],
             'kind_free_text': 'Hypothesis-generated states and structured '
                               'queries; brute-force reference pv/acref.py'},
            {'name': 'txn-scheduler', 'path': 'pv/sched.py',
             'serves_properties': ['C05', 'C06', 'C07', 'C10', 'C19'],
             'kind_free_text': 'baton scheduler over real request threads; '
                               'scheduling points = pool checkin with no '
                               'connection checked out'},
            {'name': 'fault-injector', 'path': 'pv/faults.py',
             'serves_properties': ['C17', 'C18'],
             'kind_free_text': 'statement-level fault injection via dialect '
                               'events; crash points via fork + os._exit'},
            {'name': 'surface-enumeration', 'path': 'pv/props/c14.py',
             'serves_properties': ['C14', 'C16'],
             'kind_free_text': 'exhaustive enumeration of routes x methods x '
                               'microversions x caller classes x policy '
                               'overrides on a fixed fixture'},
            {'name': 'request-mutator', 'path': 'pv/fuzz.py',
             'serves_properties': ['C15'],
             'kind_free_text': 'grammar-based structured mutation of valid '
                               'requests drawn with Hypothesis'},
        ],
        'checks': checks,
        'not_applicable': na,
        'notes': 'All checks: ./check <Cnn> [--tier quick|thorough] '
                 '[--replay FILE]; VERIF_SEED selects the Hypothesis seed; '
                 'exit 0 held / 1 VIOLATION / 2 harness error or inconclusive.',
    }
    with open(os.path.join(HERE, 'MANIFEST.json'), 'w') as f:
        json.dump(manifest, f, indent=1)
        f.write('\n')


if __name__ == '__main__':
    main()
