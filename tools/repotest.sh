#!/bin/sh
# Run the pinned suite of /repo (or $1) and print the summary line; expected: 361 passed, 15 failed (always_fail).
cd "${1:-/repo}" && /venv/bin/python -m pytest -q -p no:cacheprovider --timeout=900 --continue-on-collection-errors 2>&1 | tail -1
