#!/usr/bin/env python3
"""Write seeded/<id>/meta.json for every seeded change and seeded/README.md.

Inputs per seed: patch.diff, demo.py, confirmation.txt (the RESULT line of
tools/seedcheck.sh plus one line per check run against it), optional
NOTES.md (the seeder's own description; copied from /tmp/seed-<P>/NOTES.md
when that still exists), optional sweep results (tools/seedsweep.sh output,
given as argv[1]).
"""
import json
import os
import re
import sys

HERE = os.path.dirname(os.path.dirname(os.path.abspath(__file__)))
SEEDED = os.path.join(HERE, 'seeded')
PROPS = {json.loads(l)['id']: json.loads(l)
         for l in open(os.path.join(HERE, 'properties.jsonl'))}


def notes_section(pid, n):
    for cand in (os.path.join(SEEDED, '%s-%s' % (pid, n), 'NOTES.md'),
                 '/tmp/seed-%s/NOTES.md' % pid):
        if os.path.exists(cand):
            text = open(cand).read()
            secs = re.split(r'(?m)^## ', text)
            for s in secs:
                if re.match(r'patch%s\b' % n, s):
                    return '## ' + s.strip()
            if 'seeded/' in cand:
                return text.strip()
    return None


def demo_doc(path):
    src = open(path).read()
    m = re.search(r'"""(.*?)"""', src, re.S)
    return m.group(1).strip() if m else ''


def parse_runs(lines, sid):
    runs = []
    for ln in lines:
        m = re.match(r'(\S+) (C\d+) rc=(\d*) violations=(\d+)\s*(?:harness_errors=\d+\s*)?(wall=([\d.]+)s)?',
                     ln.strip())
        if m and m.group(1) in ('patch', sid):
            runs.append({'check': m.group(2),
                         'exit': int(m.group(3)) if m.group(3) else None,
                         'violations': int(m.group(4)),
                         'wall_s': float(m.group(6)) if m.group(6) else None})
    return runs


def main():
    sweep = {}
    if len(sys.argv) > 1:
        for ln in open(sys.argv[1]):
            m = re.match(r'(C\d+-\d+) ', ln)
            if m:
                sweep.setdefault(m.group(1), []).append(ln)
    rows = []
    for sid in sorted(os.listdir(SEEDED)):
        d = os.path.join(SEEDED, sid)
        if not os.path.isdir(d):
            continue
        pid, n = sid.split('-')
        conf = open(os.path.join(d, 'confirmation.txt')).read().splitlines() \
            if os.path.exists(os.path.join(d, 'confirmation.txt')) else []
        result = next((l for l in conf if l.startswith('RESULT')), '')
        note = notes_section(pid, n)
        if note and not os.path.exists(os.path.join(d, 'NOTES.md')):
            with open(os.path.join(d, 'NOTES.md'), 'w') as f:
                f.write(note + '\n')
        runs = parse_runs(sweep.get(sid, []), sid) or parse_runs(conf, sid)
        # latest run per check wins
        latest = {}
        for r in runs:
            latest[r['check']] = r
        caught = sorted(c for c, r in latest.items() if r['exit'] == 1
                        and r['violations'] > 0)
        files = re.findall(r'^\+\+\+ b/(\S+)', open(
            os.path.join(d, 'patch.diff')).read(), re.M)
        meta = {
            'id': sid,
            'property': pid,
            'property_title': PROPS[pid]['title'],
            'origin': 'written by a sub-agent that was given only the text of '
                      'the property and a private scratch worktree of /repo '
                      '(nothing from /verif)',
            'files_changed': files,
            'description': note or demo_doc(os.path.join(d, 'demo.py')),
            'needs_to_manifest': NEEDS.get(sid, 'see description'),
            'confirmed': {
                'how': 'tools/seedcheck.sh: fresh worktree of /repo HEAD, '
                       'git apply patch.diff, pinned suite, demo.py with and '
                       'without the patch; worktree removed afterwards',
                'result': result},
            'checks_run': sorted(latest.values(), key=lambda r: r['check']),
            'caught_by': caught,
        }
        with open(os.path.join(d, 'meta.json'), 'w') as f:
            json.dump(meta, f, indent=1)
            f.write('\n')
        rows.append((sid, NEEDS.get(sid, ''), latest, caught))
    with open(os.path.join(SEEDED, 'README.md'), 'w') as f:
        f.write('# Seeded property-breaking changes\n\n'
                'Each directory: `patch.diff` (relative to /repo HEAD), '
                '`demo.py` (fails with the patch, passes without), '
                '`meta.json`, `confirmation.txt`, `NOTES.md` (the seeder\'s '
                'description). Regenerate this table with '
                '`tools/seedsweep.sh > out; tools/mkmeta.py out`.\n\n'
                '| seed | needs | quick checks run (exit/violations) | '
                'caught by |\n|---|---|---|---|\n')
        for sid, needs, latest, caught in rows:
            f.write('| %s | %s | %s | %s |\n' % (
                sid, needs,
                ', '.join('%s: %s/%s' % (c, r['exit'], r['violations'])
                          for c, r in sorted(latest.items())),
                ', '.join(caught) or '**missed**'))


NEEDS = {
    'C01-7': 'inventory stored with allocation_ratio exactly 0.0 (capacity 0), then any positive allocation',
    'C01-8': 'one POST /allocations or reshaper body that first clears a consumer holding allocations and later places for another consumer',
    'C02-7': 'microversion 1.10-1.28, nested providers present, candidate served by a non-root provider alone',
    'C02-8': 'inventory with allocation_ratio < 1 and reserved > 0, amount in the top reserved*(1-ratio) units of capacity',
    'C03-7': 'group_policy=isolate, unsuffixed and suffixed group asking one class, amounts fit alone but not summed',
    'C03-8': 'provider with the sharing trait but in no aggregate, satisfying a suffixed group',
    'C04-7': 'microversion <= 1.11 list body naming one provider twice, for a consumer that does not exist yet',
    'C04-8': 'allocation_conflict_retry_count=1 (or two providers, conflict on the second) and a racing provider write',
    'C05-7': 'guarded write past its early check, then DELETE and POST of the provider under the same uuid, then the write transaction',
    'C05-8': 'PUT aggregates (>= 1.19) whose transaction fails with a deadlock after the generation UPDATE, a same-generation write commits before the retry',
    'C06-7': 'write carrying a generation HIGHER than the stored one (consumer cleared and re-created under the same uuid)',
    'C06-8': 'POST/reshaper naming a new consumer and an existing one whose generation a racer bumps before the write',
    'C07-7': 'a generation-bumping request commits exactly between the two provider reads of PUT inventories',
    'C07-8': 'two claims by different consumers on one provider, the loser of the provider generation retried server-side',
    'C08-7': 'provider with inventory of one class named in the request asked for another class it does not have',
    'C08-8': 'inventory write for an unused custom class preempted right before its write transaction by DELETE of that class',
    'C09-7': 'GET /resource_providers?in_tree=<non-root provider>',
    'C09-8': 'PUT moving / detaching an already parented provider at microversion exactly 1.36',
    'C10-7': 'GET /resource_providers listing of a nested provider whose generation differs from its root',
    'C10-8': 'POST /allocations or reshaper naming a new consumer whose uuid is not lower case',
    'C11-7': 'PUT allocations for an existing consumer naming another project/user/type that fails inside the write (409 over capacity)',
    'C11-8': 'GET /traits with both name= and associated= when a name-matching trait has the opposite association status',
    'C12-7': 'consumer typed at >= 1.38, then any successful write below 1.38',
    'C12-8': 'DELETE allocations preempted after its read by a PUT replacing the consumer allocations (fresh row ids)',
    'C13-7': 'provider in an aggregate stored in upper-case / undashed spelling, member_of naming that same string',
    'C13-8': 'name filter on a nested tree',
    'C14-7': 'GET provider aggregates at >= 1.19 for a provider still at generation 0',
    'C14-8': 'microversion 1.10-1.28 and a candidate spanning two providers of one tree that was dropped',
    'C15-7': 'GET /allocation_candidates at exactly 1.25 or 1.26 with numbered groups only',
    'C15-8': 'inventory written with step_size 0, then an allocation against it',
    'C16-7': 'header-less admin request followed, in the same process, by a header-less role-less caller',
    'C16-8': 'policy file override removed by an edit while the service keeps running',
    'C17-7': 'PUT that re-parents a provider with descendants + any database fault at the final descendant UPDATE',
    'C17-8': 'inventory write updating an existing class + fault exactly at the usage SELECT (deadlock with rollback)',
    'C18-7': 'PUT / DELETE inventories dropping a class; process dies between the two commits',
    'C18-8': 'DELETE provider; process dies between the two commits',
    'C19-7': 'sync_on_startup=True with a database already at alembic head but not (fully) synchronised',
    'C19-8': 'standard trait attached to a provider, then DELETE /traits/<it>',
    'C20-7': 'microversion 1.10-1.28, nested providers, a child alone satisfying the request',
    'C20-8': 'randomisation off, >= 2 candidates, the same request issued twice',
    'C09-9': 'microversion 1.14-1.36: first parent given to a top-level provider that already has children (or one of its own descendants named as parent)',
    'C09-10': 'DELETE of a top-level provider interrupted (crash / database error) between its two commits',
    'C03-9': 'nested/sharing provider present; one unsuffixed group with >= 3 classes whose first two classes (query order) share no tree',
    'C03-10': 'member_of=in:X,Y / !in:X,Y where one listed aggregate was never associated with any provider (no aggregate row)',
    'C05-9': 'reshaper listing a provider with empty inventories and clearing a consumer allocated there, raced by a write on that provider (server-side retry leaks the fresh generation)',
    'C05-10': 'PUT inventories carrying generation exactly 0 when the provider has moved past 0',
    'C02-9': '>= 1.32 member_of=!AGG on the only in-tree supplier of one of >= 2 requested classes (non-root or sharing), nested/sharing provider present',
    'C02-10': 'two request groups asking one class with different amounts on an inventory with min_unit/step_size > 1',
    'C04-9': 'POST /reshaper naming a provider that has inventory with inventories {} (everything moves away) while a foreign consumer still holds allocations there',
    'C04-10': 'POST /reshaper with reserved > total in some inventory and a not-yet-existing consumer in allocations',
    'C01-9': 'POST /reshaper whose re-placed allocations break min_unit/max_unit/step_size of the inventory they land on while fitting capacity (two files)',
    'C01-10': 'capacity with a fractional part above .5 (e.g. total 3, ratio 1.6) and writes bringing usage up to the rounded value',
    'C06-9': 'database deadlock raised right after the consumer generation bump (or at COMMIT) of one writer, second writer with the same generation committing during the retry back-off',
    'C06-10': 'two PUTs with one generation, the second preempted between ensure_consumer and its read of the stored allocations and asking for exactly what is stored when it resumes',
    'C07-9': 'DELETE allocations split between read and write transaction by a PUT replacing the consumer rows under new ids (another consumer holds a later row)',
    'C07-10': 'DELETE /traits/X (in-use check moved to its own transaction) raced by a PUT provider traits newly associating X',
    'C08-9': 'DELETE of a provider that has at least two kinds of dependents (inventory plus traits or aggregates)',
    'C08-10': 'DELETE /traits/X preempted between its usage check and its write transaction by a PUT provider traits adding X',
    'C10-9': 'multi-consumer POST /allocations clearing one consumer, raced by DELETE allocations of that consumer between the generation check and the read of the allocations to clear',
    'C10-10': 'reshaper naming a not-yet-existing consumer and refused in the provider loop (stale generation / unknown provider)',
    'C11-9': 'reshaper changing the capacity of a class the provider already has, with allocations valid under only one of the old and new values',
    'C11-10': 'PUT /allocations/{c} with allocations {} at 1.12-1.27',
    'C12-9': 'POST /allocations at 1.13-1.27 with an empty entry for a non-existing consumer, then a generation-null write at >= 1.28',
    'C12-10': 'one POST /allocations or reshaper where a not-yet-existing consumer precedes (body order) an entry refused 409 in the consumer stage',
    'C13-9': '>= 1.22 forbidden traits mixing a known and an unknown name',
    'C13-10': 'nested tree whose root is directly in aggregate A while descendants are not; member_of=A / !A',
    'C15-9': 'same_subtree made only of separators/blanks (>= 1.36) in a deployment with at least one candidate',
    'C15-10': 'valid inventory write with an Accept header excluding application/json (two files)',
    'C16-9': 'same reader: allowed GET /usages?project_id=own first, then GET /usages?project_id=other in the same process (two files)',
    'C16-10': 'no credentials plus an unsupported or unparsable microversion header (two files)',
    'C20-9': 'limit < M, randomisation off, >= 2 groups whose combinations are partly rejected inside one anchor (isolate / same_subtree / capacity) (two files)',
    'C20-10': 'exactly microversion 1.16 with limit < M',
    'C14-9': 'GET /allocation_candidates at 1.10/1.11 (list form) returning at least two candidates; content compared with 1.12+',
    'C14-10': 'inventory write with reserved > total at >= 1.26 (exception hierarchy changed in another file)',
    'C17-9': 'POST /allocations or reshaper naming >= 2 never-seen consumers and a non-HTTP database failure while the second is being ensured',
    'C17-10': 'DELETE provider with dependents and a deadlock with server-side rollback exactly at the final DELETE FROM resource_providers',
    'C18-9': 'PUT allocations at 1.0-1.7 for a consumer that already holds allocations, crash after the first of two commits (two files)',
    'C18-10': 'PUT provider traits that both removes and adds a trait, crash between the two commits',
    'C19-9': 'two concurrent PUT /resource_classes/CUSTOM_X (>= 1.7) for a new name; loser on the unique constraint answers 201',
    'C19-10': 'partially synchronised table where a missing standard class name is a substring of a present one (VGPU / VGPU_DISPLAY_HEAD), then a start-up',
    'C01-5': 'PUT/POST for a not-yet-existing consumer whose first attempt is retried server-side after a racing write bumped the provider (two cooperating edits)',
    'C01-6': 'old microversion (< 1.28): allocate, shrink the inventory / change step_size, re-PUT the identical allocations',
    'C02-5': 'candidate for a string-suffixed group (>= 1.34) sent back unchanged including its mappings',
    'C02-6': 'microversion 1.10/1.11 (list body) with a candidate where one provider supplies two classes; check what is stored after the claim',
    'C03-5': 'repeated same_subtree with overlapping suffix sets and three suffixed groups (>= 1.36)',
    'C03-6': 'microversion 1.10/1.11, a class from one provider lying between two classes of another in class-id order',
    'C04-5': '>= 1.28: write naming a non-existent consumer with a non-null generation (PUT, DELETE, PUT again with the remembered generation)',
    'C04-6': 'POST /allocations with >= 2 consumers, a schema-valid non-UUID key (36 hex digits) not in first position, earlier consumer new',
    'C05-5': 'PUT inventories/{rc} with the current generation while another provider write commits between its check and its write',
    'C05-6': 'POST /reshaper naming >= 2 providers with a stale generation on one that is not the last key',
    'C06-5': 'two writes to one consumer sharing a provider; loser preempted after loading providers; server-side retry re-reads the consumer',
    'C06-6': '>= 1.38: write with a non-null generation for a consumer that no longer exists (write, read generation, clear, write)',
    'C07-5': '>= 1.38: two null-generation writers of a new consumer with different consumer_type; four context switches',
    'C07-6': 'request that auto-creates a consumer and then loses on a generation conflict only a race produces (two-provider PUT / POST with a raced second consumer)',
    'C08-5': 'DELETE a custom class all of whose inventories cannot take one more unit (fully used / fully reserved / step_size > 1)',
    'C08-6': 'POST /allocations or reshaper introducing a consumer whose key is not canonically spelled (upper-case hex)',
    'C09-5': 'parent-changing PUT on a provider with descendants + one deadlock after the parent block ran (retry with mutated arguments)',
    'C09-6': 'POST child under P suspended between parent lookup and insert while a PUT moving P commits',
    'C10-5': 'PUT provider that really changes the parent (first parenting >= 1.14, re-/un-parenting >= 1.37)',
    'C10-6': 'server-side retry budget exhausted (allocation_conflict_retry_count=1, or two providers with the conflict on the second)',
    'C11-5': 'PUT provider at >= 1.14 for a child with a body carrying only "name"',
    'C11-6': 'one PUT inventories / reshaper body with >= 2 classes where an earlier class sets an optional field the later one omits',
    'C12-5': 'POST /reshaper naming a not-yet-existing consumer, refused inside the inventories loop (stale provider generation / unknown provider)',
    'C12-6': 'project and user row ids diverged, then a write changing only consumer_type (>= 1.38)',
    'C13-5': 'the same trait in two single-trait required terms (required=T,T or repeated at 1.39)',
    'C13-6': '>= 1.32: repeated member_of where an earlier value forbids every aggregate of a later positive value',
    'C14-5': 'PUT provider moving it to another parent INSIDE its tree at microversion 1.14-1.36',
    'C14-6': 'string-suffixed in_tree key at microversion 1.31/1.32',
    'C15-5': 'project with an untyped (< 1.38) and a typed consumer, GET /usages at >= 1.38 without consumer_type',
    'C15-6': 'member_of=in:<known>,<never seen> (or !in:) on providers listing or candidates',
    'C16-5': 'policy file overriding only placement:resource_providers:show + POST /resource_providers at >= 1.20',
    'C16-6': 'policy file overriding the base rule admin_api',
    'C17-5': '>= 1.38, new consumer, new consumer type + any database failure at the consumer_types statements',
    'C17-6': 'retryable deadlock exactly at the consumer generation UPDATE of an allocation write',
    'C18-5': 'PUT aggregates that both adds and removes; process dies between the two commits',
    'C18-6': 'POST /resource_providers without parent; process dies between the insert commit and the root update commit',
    'C19-5': 'class name containing a non-ASCII decimal digit in a JSON body (POST, or rename at 1.2-1.6)',
    'C19-6': '>= 2 custom classes, delete one that is not the newest, then create a new name',
    'C20-5': 'limit given more than once with different values',
    'C20-6': 'randomisation off, >= 1.29, nested providers, limit below the per-tree combinations, class requested by unsuffixed and suffixed group',
    'C01-3': 'POST /reshaper giving a provider "inventories": {} while the allocations section still places amounts on it',
    'C01-4': 'inventory with reserved > 0 and allocation_ratio > 1 and an allocation landing between total*ratio-reserved and (total-reserved)*ratio',
    'C02-3': 'unsuffixed group asking >= 3 classes where a prefix (in query order) has no common tree and a later class fits somewhere',
    'C02-4': 'inventory with step_size > 1 whose min_unit is not a multiple of it; amount = min_unit + k*step_size',
    'C03-3': 'microversion 1.25-1.28, nested tree, >= 2 groups satisfied by different providers of one tree',
    'C03-4': 'root_required (>= 1.35) plus a suffixed group satisfied by a non-root provider',
    'C04-3': 'PUT aggregates (>= 1.19) passes the early generation check, another write on the provider commits, then its two transactions run',
    'C04-4': 'PUT inventories / PUT inventory shrinking a used class below its usage (answered 409 after the write committed)',
    'C05-3': 'PUT inventories with "inventories": {} and generation G while another writer commits between the check and the write',
    'C05-4': 'PUT traits carrying a generation HIGHER than the stored one (future value, or cached before delete and re-create)',
    'C06-3': 'two writers of a new consumer, both null; the loser preempted between its lookup and Consumer.create()',
    'C06-4': 'creator (null) preempted after ensure_consumer; other writer with explicit generation 0 succeeds; creator then fails and cleans up',
    'C07-3': 'existing consumer, right generation, changed project/user, and a failure inside the write transaction (409 over capacity after a racing claim)',
    'C07-4': 'two identical PUT aggregates (>= 1.19) with the same generation, loser past the early check before the winner commits',
    'C08-3': 'rejected PUT for a new consumer preempted after ensure_consumer by a complete PUT (1.27, no generation) for the same consumer',
    'C08-4': 'P1 in aggregates {A, B}, P2 in {A}; PUT P1 aggregates [] removes both at once',
    'C09-3': 'microversion >= 1.37: re-parent a non-root provider into another tree (or un-parent it) while siblings stay in the old tree',
    'C09-4': 'DELETE P preempted between its child check and its write transaction by POST child / PUT first-parent under P',
    'C10-3': 'POST inventory preempted after reading the provider by another write on it (server-side retry answers with the stale generation)',
    'C10-4': 'PUT allocations below 1.28 repeating exactly what the consumer already holds (same project/user)',
    'C11-3': 'two providers share an aggregate and one of them drops it via PUT aggregates',
    'C11-4': 'rewrite of a consumer that already holds allocations where old + new exceed capacity although new alone fits',
    'C12-3': 'POST /allocations for an existing consumer naming another project/user/type, rejected after the consumer stage (e.g. over capacity)',
    'C12-4': 'PUT allocations for a not-yet-existing consumer naming a well-formed but unregistered resource class',
    'C13-3': 'microversion 1.39: required=in:A,B partly covered by required=!A, provider holding B but not A',
    'C13-4': 'resources filter on an inventory with reserved > 0 and ratio != 1, amount between the two capacity formulas',
    'C14-3': 'PUT allocations with empty allocations at microversion 1.12-1.27',
    'C14-4': 'consumer written below 1.38 (type NULL), GET /allocations/{c} at >= 1.38',
    'C15-3': 'microversion 1.2-1.6: PUT /resource_classes/CUSTOM_A {"name": "CUSTOM_B"} with CUSTOM_B existing',
    'C15-4': 'otherwise valid POST /reshaper placing a class on a provider that has no inventory of it before or after',
    'C16-3': 'PUT /traits/<existing custom trait> by a caller without the admin/service role',
    'C16-4': 'PUT provider aggregates at microversion 1.1-1.18 by an unauthorised caller',
    'C17-3': 'PUT aggregates >= 1.19 naming a never-seen aggregate + duplicate-key error on INSERT INTO placement_aggregates (retry path)',
    'C17-4': 'start-up on an unsynchronised database + deadlock with server-side rollback at the resource-class statements',
    'C18-3': 'POST /reshaper with empty allocations and >= 2 providers; process dies between the per-provider commits',
    'C18-4': 'DELETE /allocations/{c} of a consumer holding allocations on >= 2 providers; process dies between per-provider commits',
    'C19-3': 'PUT /resource_classes/{name} >= 1.7 with a syntactically valid CUSTOM_ name longer than 255 characters',
    'C19-4': 'database fault during the resource-class sync of one start-up, then another start-up in the same process',
    'C20-3': 'microversion 1.25-1.33, >= 2 interchangeable granular groups (twins), limit slice containing both twins',
    'C20-4': 'randomisation off, >= 1.35, exactly one request group on the single-provider path, root_required filtering some providers, limit',
    'C01-1': 'one POST /allocations whose consumers land on the same (provider, class) and only jointly exceed capacity',
    'C01-2': 'POST /reshaper that shrinks an existing inventory while re-placing allocations on it',
    'C03-1': 'sharing provider for a suffixed group + member_of on the unsuffixed group that the sharing provider is not in',
    'C03-2': 'two groups asking the same class/amount, only one with in_tree; depends on parameter order',
    'C04-1': 'reshaper naming an existing consumer with changed project/user/type, rejected later in the request',
    'C04-2': 'database fault on one INSERT INTO allocations of a write that auto-created consumers',
    'C05-1': 'two PUT aggregates (>= 1.19) with the same generation, second arrives after the first committed',
    'C05-2': 'PUT inventories committed between the reshaper\'s two reads of the same provider',
    'C06-1': 'two PUT allocations with equal consumer generation; the loser also changes project_id; preempted after ensure_consumer',
    'C06-2': 'clearing write (empty allocations / POST move) racing a normal write with the same consumer generation',
    'C08-1': 'reshaper dropping an inventory that a consumer not named in the payload still uses',
    'C08-2': 'DELETE provider preempted right before its write transaction by an allocation write on it',
    'C09-1': 'descendant created before its parent (older id) then subtree moved; loop check bypass',
    'C09-2': 'parent_provider_uuid in upper case / without dashes naming the provider\'s own descendant',
    'C12-1': 'POST /allocations that empties one consumer while writing another',
    'C12-2': 'allocation write below 1.8 under non-default incomplete_consumer_* configuration',
    'C13-1': 'resources filter with several classes where an early one is satisfiable by nobody',
    'C13-2': 'member_of=in:<known>,<unknown> or !in: with one unknown aggregate',
    'C02-1': 'group_policy=isolate + unsuffixed and suffixed group sharing a class on one provider, sum over capacity / max_unit',
    'C02-2': 'suffixed group served by a non-root provider that already has allocations',
    'C07-1': 'two PUT allocations, same consumer generation, loser\'s first attempt fails on the provider generation and is retried server-side',
    'C07-2': 'clearing write racing a write that moves the same consumer, same consumer generation',
    'C10-1': 'one POST /allocations or reshaper writing >= 2 consumers',
    'C10-2': 'PUT aggregates >= 1.19 with a strict subset of the current aggregates (incl. [])',
    'C11-1': 'consumer typed at >= 1.38 then successfully rewritten at < 1.38, then read at >= 1.38',
    'C11-2': 'GET /usages >= 1.38 with consumers of one type holding different class sets',
    'C14-1': 'required / requiredN repeated on GET /allocation_candidates at 1.17-1.38',
    'C14-2': 'an error with a specific code (409 duplicate, generation conflict, in use) requested at 1.0-1.22 or without version header',
    'C15-1': 'PUT allocations for an existing consumer with right generation, changed project/user/type and an unknown CUSTOM_ class (400)',
    'C15-2': 'POST /resource_providers >= 1.14 with explicit "parent_provider_uuid": null',
    'C16-1': 'reader of another project, GET /usages?project_id=<other> at 1.9-1.37',
    'C16-2': 'policy override placement:allocations:delete "!" + PUT allocations with empty allocations >= 1.28',
    'C17-1': 'allocation write for an existing consumer with changed project/user/type + deadlock without server-side rollback before the generation updates',
    'C17-2': 'any database fault at the last two statements of PUT aggregates (after the commit)',
    'C18-1': 'PUT provider that (re)parents a provider with descendants; process dies between the two commits',
    'C18-2': 'POST /allocations naming existing consumers with changed project/user/type; process dies after a per-consumer commit',
    'C19-1': 'partially synchronised traits table with k symbols missing and >= k custom traits, then a restart',
    'C19-2': 'PUT /resource_classes/<standard> with a CUSTOM_ name at microversion 1.2-1.6, then a restart',
    'C20-1': 'randomize_allocation_candidates=True and limit < M',
    'C20-2': 'limit at microversion 1.16-1.28 with nested providers present, randomisation off',
}

if __name__ == '__main__':
    main()
