#!/usr/bin/env python3
"""Write seeded/<id>/meta.json for every seeded change and seeded/README.md.

Inputs per seed: patch.diff, demo.py, confirmation.txt (the RESULT line of
tools/seedcheck.sh plus one line per check run against it), optional
NOTES.md (the seeder's own description; copied from /tmp/seed-<P>/NOTES.md
when that still exists), optional sweep results (tools/seedsweep.sh output,
given as argv[1]).
"""
import json
import os
import re
import sys

HERE = os.path.dirname(os.path.dirname(os.path.abspath(__file__)))
SEEDED = os.path.join(HERE, 'seeded')
PROPS = {json.loads(l)['id']: json.loads(l)
         for l in open(os.path.join(HERE, 'properties.jsonl'))}


def notes_section(pid, n):
    for cand in (os.path.join(SEEDED, '%s-%s' % (pid, n), 'NOTES.md'),
                 '/tmp/seed-%s/NOTES.md' % pid):
        if os.path.exists(cand):
            text = open(cand).read()
            secs = re.split(r'(?m)^## ', text)
            for s in secs:
                if re.match(r'patch%s\b' % n, s):
                    return '## ' + s.strip()
            if 'seeded/' in cand:
                return text.strip()
    return None


def demo_doc(path):
    src = open(path).read()
    m = re.search(r'"""(.*?)"""', src, re.S)
    return m.group(1).strip() if m else ''


def parse_runs(lines, sid):
    runs = []
    for ln in lines:
        m = re.match(r'(\S+) (C\d+) rc=(\d*) violations=(\d+)\s*(?:harness_errors=\d+\s*)?(wall=([\d.]+)s)?',
                     ln.strip())
        if m and m.group(1) in ('patch', sid):
            runs.append({'check': m.group(2),
                         'exit': int(m.group(3)) if m.group(3) else None,
                         'violations': int(m.group(4)),
                         'wall_s': float(m.group(6)) if m.group(6) else None})
    return runs


def main():
    sweep = {}
    if len(sys.argv) > 1:
        for ln in open(sys.argv[1]):
            m = re.match(r'(C\d+-\d+) ', ln)
            if m:
                sweep.setdefault(m.group(1), []).append(ln)
    rows = []
    for sid in sorted(os.listdir(SEEDED)):
        d = os.path.join(SEEDED, sid)
        if not os.path.isdir(d):
            continue
        pid, n = sid.split('-')
        conf = open(os.path.join(d, 'confirmation.txt')).read().splitlines() \
            if os.path.exists(os.path.join(d, 'confirmation.txt')) else []
        result = next((l for l in conf if l.startswith('RESULT')), '')
        note = notes_section(pid, n)
        if note and not os.path.exists(os.path.join(d, 'NOTES.md')):
            with open(os.path.join(d, 'NOTES.md'), 'w') as f:
                f.write(note + '\n')
        runs = parse_runs(sweep.get(sid, []), sid) or parse_runs(conf, sid)
        # latest run per check wins
        latest = {}
        for r in runs:
            latest[r['check']] = r
        caught = sorted(c for c, r in latest.items() if r['exit'] == 1
                        and r['violations'] > 0)
        files = re.findall(r'^\+\+\+ b/(\S+)', open(
            os.path.join(d, 'patch.diff')).read(), re.M)
        meta = {
            'id': sid,
            'property': pid,
            'property_title': PROPS[pid]['title'],
            'origin': 'written by a sub-agent that was given only the text of '
                      'the property and a private scratch worktree of /repo '
                      '(nothing from /verif)',
            'files_changed': files,
            'description': note or demo_doc(os.path.join(d, 'demo.py')),
            'needs_to_manifest': NEEDS.get(sid, 'see description'),
            'confirmed': {
                'how': 'tools/seedcheck.sh: fresh worktree of /repo HEAD, '
                       'git apply patch.diff, pinned suite, demo.py with and '
                       'without the patch; worktree removed afterwards',
                'result': result},
            'checks_run': sorted(latest.values(), key=lambda r: r['check']),
            'caught_by': caught,
        }
        with open(os.path.join(d, 'meta.json'), 'w') as f:
            json.dump(meta, f, indent=1)
            f.write('\n')
        rows.append((sid, NEEDS.get(sid, ''), latest, caught))
    with open(os.path.join(SEEDED, 'README.md'), 'w') as f:
        f.write('# Seeded property-breaking changes\n\n'
                'Each directory: `patch.diff` (relative to /repo HEAD), '
                '`demo.py` (fails with the patch, passes without), '
                '`meta.json`, `confirmation.txt`, `NOTES.md` (the seeder\'s '
                'description). Regenerate this table with '
                '`tools/seedsweep.sh > out; tools/mkmeta.py out`.\n\n'
                '| seed | needs | quick checks run (exit/violations) | '
                'caught by |\n|---|---|---|---|\n')
        for sid, needs, latest, caught in rows:
            f.write('| %s | %s | %s | %s |\n' % (
                sid, needs,
                ', '.join('%s: %s/%s' % (c, r['exit'], r['violations'])
                          for c, r in sorted(latest.items())),
                ', '.join(caught) or '**missed**'))


NEEDS = {
    'C01-3': 'POST /reshaper giving a provider "inventories": {} while the allocations section still places amounts on it',
    'C01-4': 'inventory with reserved > 0 and allocation_ratio > 1 and an allocation landing between total*ratio-reserved and (total-reserved)*ratio',
    'C02-3': 'unsuffixed group asking >= 3 classes where a prefix (in query order) has no common tree and a later class fits somewhere',
    'C02-4': 'inventory with step_size > 1 whose min_unit is not a multiple of it; amount = min_unit + k*step_size',
    'C03-3': 'microversion 1.25-1.28, nested tree, >= 2 groups satisfied by different providers of one tree',
    'C03-4': 'root_required (>= 1.35) plus a suffixed group satisfied by a non-root provider',
    'C04-3': 'PUT aggregates (>= 1.19) passes the early generation check, another write on the provider commits, then its two transactions run',
    'C04-4': 'PUT inventories / PUT inventory shrinking a used class below its usage (answered 409 after the write committed)',
    'C05-3': 'PUT inventories with "inventories": {} and generation G while another writer commits between the check and the write',
    'C05-4': 'PUT traits carrying a generation HIGHER than the stored one (future value, or cached before delete and re-create)',
    'C06-3': 'two writers of a new consumer, both null; the loser preempted between its lookup and Consumer.create()',
    'C06-4': 'creator (null) preempted after ensure_consumer; other writer with explicit generation 0 succeeds; creator then fails and cleans up',
    'C07-3': 'existing consumer, right generation, changed project/user, and a failure inside the write transaction (409 over capacity after a racing claim)',
    'C07-4': 'two identical PUT aggregates (>= 1.19) with the same generation, loser past the early check before the winner commits',
    'C08-3': 'rejected PUT for a new consumer preempted after ensure_consumer by a complete PUT (1.27, no generation) for the same consumer',
    'C08-4': 'P1 in aggregates {A, B}, P2 in {A}; PUT P1 aggregates [] removes both at once',
    'C09-3': 'microversion >= 1.37: re-parent a non-root provider into another tree (or un-parent it) while siblings stay in the old tree',
    'C09-4': 'DELETE P preempted between its child check and its write transaction by POST child / PUT first-parent under P',
    'C10-3': 'POST inventory preempted after reading the provider by another write on it (server-side retry answers with the stale generation)',
    'C10-4': 'PUT allocations below 1.28 repeating exactly what the consumer already holds (same project/user)',
    'C11-3': 'two providers share an aggregate and one of them drops it via PUT aggregates',
    'C11-4': 'rewrite of a consumer that already holds allocations where old + new exceed capacity although new alone fits',
    'C12-3': 'POST /allocations for an existing consumer naming another project/user/type, rejected after the consumer stage (e.g. over capacity)',
    'C12-4': 'PUT allocations for a not-yet-existing consumer naming a well-formed but unregistered resource class',
    'C13-3': 'microversion 1.39: required=in:A,B partly covered by required=!A, provider holding B but not A',
    'C13-4': 'resources filter on an inventory with reserved > 0 and ratio != 1, amount between the two capacity formulas',
    'C14-3': 'PUT allocations with empty allocations at microversion 1.12-1.27',
    'C14-4': 'consumer written below 1.38 (type NULL), GET /allocations/{c} at >= 1.38',
    'C15-3': 'microversion 1.2-1.6: PUT /resource_classes/CUSTOM_A {"name": "CUSTOM_B"} with CUSTOM_B existing',
    'C15-4': 'otherwise valid POST /reshaper placing a class on a provider that has no inventory of it before or after',
    'C16-3': 'PUT /traits/<existing custom trait> by a caller without the admin/service role',
    'C16-4': 'PUT provider aggregates at microversion 1.1-1.18 by an unauthorised caller',
    'C17-3': 'PUT aggregates >= 1.19 naming a never-seen aggregate + duplicate-key error on INSERT INTO placement_aggregates (retry path)',
    'C17-4': 'start-up on an unsynchronised database + deadlock with server-side rollback at the resource-class statements',
    'C18-3': 'POST /reshaper with empty allocations and >= 2 providers; process dies between the per-provider commits',
    'C18-4': 'DELETE /allocations/{c} of a consumer holding allocations on >= 2 providers; process dies between per-provider commits',
    'C19-3': 'PUT /resource_classes/{name} >= 1.7 with a syntactically valid CUSTOM_ name longer than 255 characters',
    'C19-4': 'database fault during the resource-class sync of one start-up, then another start-up in the same process',
    'C20-3': 'microversion 1.25-1.33, >= 2 interchangeable granular groups (twins), limit slice containing both twins',
    'C20-4': 'randomisation off, >= 1.35, exactly one request group on the single-provider path, root_required filtering some providers, limit',
    'C01-1': 'one POST /allocations whose consumers land on the same (provider, class) and only jointly exceed capacity',
    'C01-2': 'POST /reshaper that shrinks an existing inventory while re-placing allocations on it',
    'C03-1': 'sharing provider for a suffixed group + member_of on the unsuffixed group that the sharing provider is not in',
    'C03-2': 'two groups asking the same class/amount, only one with in_tree; depends on parameter order',
    'C04-1': 'reshaper naming an existing consumer with changed project/user/type, rejected later in the request',
    'C04-2': 'database fault on one INSERT INTO allocations of a write that auto-created consumers',
    'C05-1': 'two PUT aggregates (>= 1.19) with the same generation, second arrives after the first committed',
    'C05-2': 'PUT inventories committed between the reshaper\'s two reads of the same provider',
    'C06-1': 'two PUT allocations with equal consumer generation; the loser also changes project_id; preempted after ensure_consumer',
    'C06-2': 'clearing write (empty allocations / POST move) racing a normal write with the same consumer generation',
    'C08-1': 'reshaper dropping an inventory that a consumer not named in the payload still uses',
    'C08-2': 'DELETE provider preempted right before its write transaction by an allocation write on it',
    'C09-1': 'descendant created before its parent (older id) then subtree moved; loop check bypass',
    'C09-2': 'parent_provider_uuid in upper case / without dashes naming the provider\'s own descendant',
    'C12-1': 'POST /allocations that empties one consumer while writing another',
    'C12-2': 'allocation write below 1.8 under non-default incomplete_consumer_* configuration',
    'C13-1': 'resources filter with several classes where an early one is satisfiable by nobody',
    'C13-2': 'member_of=in:<known>,<unknown> or !in: with one unknown aggregate',
    'C02-1': 'group_policy=isolate + unsuffixed and suffixed group sharing a class on one provider, sum over capacity / max_unit',
    'C02-2': 'suffixed group served by a non-root provider that already has allocations',
    'C07-1': 'two PUT allocations, same consumer generation, loser\'s first attempt fails on the provider generation and is retried server-side',
    'C07-2': 'clearing write racing a write that moves the same consumer, same consumer generation',
    'C10-1': 'one POST /allocations or reshaper writing >= 2 consumers',
    'C10-2': 'PUT aggregates >= 1.19 with a strict subset of the current aggregates (incl. [])',
    'C11-1': 'consumer typed at >= 1.38 then successfully rewritten at < 1.38, then read at >= 1.38',
    'C11-2': 'GET /usages >= 1.38 with consumers of one type holding different class sets',
    'C14-1': 'required / requiredN repeated on GET /allocation_candidates at 1.17-1.38',
    'C14-2': 'an error with a specific code (409 duplicate, generation conflict, in use) requested at 1.0-1.22 or without version header',
    'C15-1': 'PUT allocations for an existing consumer with right generation, changed project/user/type and an unknown CUSTOM_ class (400)',
    'C15-2': 'POST /resource_providers >= 1.14 with explicit "parent_provider_uuid": null',
    'C16-1': 'reader of another project, GET /usages?project_id=<other> at 1.9-1.37',
    'C16-2': 'policy override placement:allocations:delete "!" + PUT allocations with empty allocations >= 1.28',
    'C17-1': 'allocation write for an existing consumer with changed project/user/type + deadlock without server-side rollback before the generation updates',
    'C17-2': 'any database fault at the last two statements of PUT aggregates (after the commit)',
    'C18-1': 'PUT provider that (re)parents a provider with descendants; process dies between the two commits',
    'C18-2': 'POST /allocations naming existing consumers with changed project/user/type; process dies after a per-consumer commit',
    'C19-1': 'partially synchronised traits table with k symbols missing and >= k custom traits, then a restart',
    'C19-2': 'PUT /resource_classes/<standard> with a CUSTOM_ name at microversion 1.2-1.6, then a restart',
    'C20-1': 'randomize_allocation_candidates=True and limit < M',
    'C20-2': 'limit at microversion 1.16-1.28 with nested providers present, randomisation off',
}

if __name__ == '__main__':
    main()
