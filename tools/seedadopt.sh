#!/bin/sh
# usage: tools/seedadopt.sh <Cxx> <n> <checks...>
# Validates /tmp/seed-Cxx patch n (tools/seedcheck.sh), copies it to
# seeded/Cxx-n/ and runs the given checks against it; prints one line each.
P="$1"; N="$2"; shift 2
D=/tmp/seed-$P
R=$(tools/seedcheck.sh $D $N 2>&1 | grep '^RESULT')
echo "$R"
case "$R" in *"361 passed"*"demo_with_patch_rc=1 demo_without_patch_rc=0"*) ;; *"361 passed"*) case "$R" in *"demo_with_patch_rc=0"*|*"demo_without_patch_rc=[1-9]"*) echo "NOT-CONFIRMED $P-$N"; exit 1;; esac ;; *) echo "NOT-CONFIRMED $P-$N"; exit 1;; esac
mkdir -p seeded/$P-$N
cp $D/patch$N.diff seeded/$P-$N/patch.diff
cp $D/demo$N.py seeded/$P-$N/demo.py
echo "$R" > seeded/$P-$N/confirmation.txt
for c in "$@"; do
  tools/selftest.sh seeded/$P-$N/patch.diff $c 2>&1 | grep -v WARN | tee -a seeded/$P-$N/confirmation.txt
done
