"""Engine A: Hypothesis rule-based state machine over the HTTP API.

One machine class, parameterised by a Profile (operation mix, version mix,
armed oracles).  State tracking for the generators is the raw dump taken
after every request, never placement's own objects and never a model.
"""
import hashlib
import json

import hypothesis
from hypothesis import HealthCheck, Phase, settings, strategies as st
from hypothesis.stateful import (RuleBasedStateMachine, initialize, rule,
                                 run_state_machine_as_test)

from pv import bgen, gen
from pv.dump import dump
from pv.runner import Violation

_SVC = None


def service():
    global _SVC
    if _SVC is None:
        from pv.app import Service
        _SVC = Service()
    return _SVC


def base_snapshot(svc, kind='custom'):
    """pristine + the custom class and trait of the bounded scope."""
    cache = svc.__dict__.setdefault('_bases', {})
    if kind in cache:
        return cache[kind]
    svc.restore(svc.pristine)
    if kind == 'custom':
        r = svc.request('PUT', '/resource_classes/' + gen.CUSTOM_CLASS,
                        version='1.39')
        assert r.status == 201, r.body
        r = svc.request('PUT', '/traits/' + gen.CUSTOM_TRAIT, version='1.39')
        assert r.status == 201, r.body
    cache[kind] = svc.snapshot()
    return cache[kind]


def execute(svc, req, app=None):
    if req['m'] == 'RESTART':
        return svc.restart()
    if req['m'] == 'SQL':
        return svc.raw_sql(req['b'])
    if req['m'] == 'SWEEP':
        from pv.app import Resp
        return Resp(200, {}, b'')
    if req['m'] == 'RESTORE':
        svc.restore(getattr(svc, req['b']))
        from pv.app import Resp
        return Resp(200, {}, b'')
    return svc.request(req['m'], req['p'], version=req.get('v'),
                       body=req.get('b'), raw_body=req.get('raw'),
                       token=req.get('tok', 'admin'), roles=req.get('roles'),
                       headers=req.get('h'), app=app)


class Profile(object):
    """ops: list of (weight, name); name maps to a builder below.
    oracles: list of callables (m, req, resp, before, after) raising
    Violation.  nontrivial: callable (m, req, resp, before, after) -> bool.
    """

    def __init__(self, name, prop, ops, oracles, nontrivial, steps=30,
                 version_lo=0, boundaries=(), defect_rate=3, base='custom',
                 init=None, after_step=None, builders=None, rich_start=0):
        self.name = name
        self.prop = prop
        self.ops = []
        for w, n in ops:
            self.ops.extend([n] * w)
        self.oracles = oracles
        self.nontrivial = nontrivial
        self.steps = steps
        self.version_lo = version_lo
        self.boundaries = boundaries
        self.defect_rate = defect_rate   # n in 10 requests carry a defect
        self.base = base
        self.init = init
        self.after_step = after_step
        self.builders = builders or {}
        # n in 10 histories start from a generated populated state (forest,
        # inventories, traits, shared aggregates, consumers) instead of empty
        self.rich_start = rich_start


DEFECTS = {
    'create_rp': ['missing-parent', 'self-parent', 'dup-name', 'dup-uuid'],
    'put_inventories': ['in-use', 'unknown-class', 'stale-gen', 'bad-schema',
                        'reserved-exceeds-total'],
    'post_inventory': ['exists', 'unknown-class', 'reserved-exceeds-total'],
    'put_inventory': ['no-inventory', 'unknown-class', 'stale-gen',
                      'reserved-exceeds-total'],
    'delete_inventory': ['in-use', 'no-inventory'],
    'put_rp_traits': ['unknown-trait', 'stale-gen'],
    'put_rp_aggregates': ['stale-gen'],
    'put_allocations': ['unknown-provider', 'unknown-class',
                        'missing-inventory', 'over-capacity',
                        'stale-consumer-gen'],
    'post_allocations': ['unknown-provider', 'unknown-class',
                         'missing-inventory', 'over-capacity',
                         'stale-consumer-gen'],
    'reshaper': ['stale-gen', 'unknown-provider-inv', 'unknown-provider',
                 'unknown-class', 'missing-inventory', 'over-capacity',
                 'stale-consumer-gen', 'empties-used-provider',
                 'reserved-exceeds-total'],
}

MIN_VERSION = {
    'put_rp_aggregates': 1, 'put_class': 7, 'post_class': 2,
    'delete_class': 2, 'delete_inventories': 5, 'put_trait': 6,
    'delete_trait': 6, 'put_rp_traits': 6, 'delete_rp_traits': 6,
    'post_allocations': 13, 'reshaper': 30,
}
NEEDS_PROVIDER = {'update_rp', 'put_inventories', 'post_inventory',
                  'put_inventory', 'delete_inventory', 'delete_inventories',
                  'put_rp_traits', 'delete_rp_traits', 'put_rp_aggregates',
                  'reshaper'}


def build(draw, d, prof, name):
    """Build one request of kind `name` for state d."""
    if name in prof.builders:
        return prof.builders[name](draw, d, prof)
    lo = max(prof.version_lo, MIN_VERSION.get(name, 0))
    v = gen.biased_version(draw, lo, 39, prof.boundaries)
    if name in NEEDS_PROVIDER and not d.providers:
        name = 'create_rp'
    if name in ('create_rp', 'create_root') and not gen.free_uuids(d) and \
            draw(st.integers(0, 3)) < 3:
        # the pool is exhausted: make room instead of producing yet another
        # duplicate-uuid refusal
        name = 'delete_rp'
    defect = None
    rate = min(prof.defect_rate, 1) if name == 'create_rp' \
        else prof.defect_rate
    if name in DEFECTS and draw(st.integers(0, 9)) >= 10 - rate:
        defect = draw(st.sampled_from(DEFECTS[name]))
    if name == 'create_rp':
        return gen.create_rp(draw, d, v, defect=defect)
    if name == 'create_root':
        return gen.create_rp(draw, d, v, parent=None)
    if name == 'put_allocations_clear':
        v = gen.biased_version(draw, 28, 39, prof.boundaries)
        return gen.put_allocations(draw, d, v, clear=True)
    f = getattr(gen, name)
    if name in DEFECTS:
        return f(draw, d, v, defect=defect)
    return f(draw, d, v)


def start_from_state(m, desc):
    from pv import bgen as _bgen
    _bgen.build_state(m.svc, desc, base_snapshot(m.svc, m.prof.base))
    m.start = desc
    m.d = dump(m.svc.dbpath)


class Recorder(object):
    """Per-worker bookkeeping shared by all examples."""

    def __init__(self, ctx, prof):
        self.ctx = ctx
        self.prof = prof
        self.collected = {}      # signature-hash -> violation record
        self.skip_sigs = set()
        self.last_fail = None


class ApiMachine(RuleBasedStateMachine):
    prof = None
    rec = None

    def __init__(self):
        super().__init__()
        self.svc = service()
        self.svc.restore(base_snapshot(self.svc, self.prof.base))
        self.d = dump(self.svc.dbpath)
        self.trace = []
        self.config = {}
        self.dead = False
        self.h = hashlib.sha1()
        self.memo = {}          # free-form per-example oracle memory
        self.step_no = 0
        self.start = None       # description of a generated start state

    @initialize(data=st.data())
    def init(self, data):
        if self.prof.rich_start and data.draw(st.integers(0, 9)) < \
                self.prof.rich_start:
            start_from_state(self, data.draw(bgen.states(max_providers=5)))
        if self.prof.init:
            self.prof.init(self, data.draw)

    @rule(data=st.data())
    def step(self, data):
        if self.dead:
            return
        name = data.draw(st.sampled_from(self.prof.ops))
        req = build(data.draw, self.d, self.prof, name)
        self.do(req)
        if self.prof.after_step and not self.dead:
            self.prof.after_step(self, data.draw)

    # ---------------------------------------------------------------
    def do(self, req, count=True):
        before = self.d
        resp = execute(self.svc, req)
        after = dump(self.svc.dbpath)
        self.d = after
        self.step_no += 1
        entry = {'req': req, 'status': resp.status}
        if resp.code():
            entry['code'] = resp.code()
        self.trace.append(entry)
        self.h.update(json.dumps([req['m'], req['p'], req['v'], req['b']],
                                 sort_keys=True, default=str).encode())
        stats = self.rec.ctx.stats
        if count:
            stats.evaluations += 1
            stats.count('%s -> %s' % (req['op'], resp.status))
        for oracle in self.prof.oracles:
            try:
                oracle(self, req, resp, before, after)
            except Violation as v:
                self.on_violation(v, req, resp)
        if count and self.prof.nontrivial(self, req, resp, before, after):
            stats.nontriv(self.h.hexdigest()[:16])
            for lb in req['labels']:
                stats.count('nontrivial label %s' % lb)
            if len(stats.samples) < stats.MAX_SAMPLES and self.step_no >= 4:
                stats.sample({'history': [
                    '%s %s @%s -> %s' % (t['req']['m'], t['req']['p'],
                                         t['req']['v'], t['status'])
                    for t in self.trace[-6:]],
                    'last_body': req['b'], 'labels': req['labels']})
        return resp

    def on_violation(self, v, req, resp):
        sig = dict(v.signature)
        sig.setdefault('prop', self.prof.prop)
        sig.setdefault('op', req['op'])
        sig.setdefault('status', resp.status)
        known = self.rec.ctx.known.match(sig)
        stats = self.rec.ctx.stats
        if known is not None:
            stats.known[known['id']] = stats.known.get(known['id'], 0) + 1
            self.dead = True     # state is tainted: stop this example
            return
        key = json.dumps(sig, sort_keys=True, default=str)
        if key in self.rec.skip_sigs:
            self.dead = True
            return
        record = {'signature': sig, 'detail': v.detail,
                  'replay': {'profile': self.prof.name,
                             'config': dict(self.config),
                             'start': self.start,
                             'steps': [t['req'] for t in self.trace],
                             'statuses': [t['status'] for t in self.trace]}}
        self.rec.last_fail = (key, record)
        raise v

    def teardown(self):
        pass


def run_machine(ctx, prof, examples, rounds=3, machine_cls=ApiMachine,
                steps=None):
    """Run the machine; collect up to `rounds` distinct violation
    signatures (each shrunk by Hypothesis), continuing the search behind
    each one by skipping its signature."""
    rec = Recorder(ctx, prof)
    cls = type('M_' + prof.name, (machine_cls,), {'prof': prof, 'rec': rec})
    for rnd in range(rounds):
        rec.last_fail = None
        seeded = hypothesis.seed(ctx.seed + rnd)(cls)
        stg = settings(
            max_examples=examples if rnd == 0 else max(10, examples // 3),
            stateful_step_count=steps or prof.steps, deadline=None,
            database=None, suppress_health_check=list(HealthCheck),
            report_multiple_bugs=False, print_blob=False,
            phases=[Phase.generate],
            verbosity=hypothesis.Verbosity.quiet)
        try:
            run_state_machine_as_test(seeded, settings=stg)
            break
        except Violation:
            if rec.last_fail is None:
                raise
            key, record = rec.last_fail
            rec.skip_sigs.add(key)
            record = minimise(ctx, prof, key, record)
            ctx.stats.violations.append(record)
        except hypothesis.errors.Flaky as e:
            if rec.last_fail is not None:
                key, record = rec.last_fail
                record['detail'] = {'flaky': str(e)[:500],
                                    'detail': record['detail']}
                rec.skip_sigs.add(key)
                ctx.stats.violations.append(record)
            else:
                raise


def ddmin(items, test, budget=150):
    """Delta debugging: smallest sublist (1-minimal within budget) of
    `items` for which test(sublist) is true.  test(items) is assumed true."""
    n = 2
    calls = 0
    while len(items) >= 2 and calls < budget:
        chunk = max(1, len(items) // n)
        subsets = [items[i:i + chunk] for i in range(0, len(items), chunk)]
        reduced = False
        for i in range(len(subsets)):
            comp = [x for j, sub in enumerate(subsets) if j != i for x in sub]
            calls += 1
            if comp and test(comp):
                items = comp
                n = max(n - 1, 2)
                reduced = True
                break
            if calls >= budget:
                break
        if not reduced:
            if chunk == 1:
                break
            n = min(len(items), n * 2)
    return items


def minimise(ctx, prof, key, record):
    """Shrink the failing request history by delta debugging on the
    concrete request list (same signature must reproduce).  The last request
    is the one the oracle failed on and is always kept."""
    steps = record['replay']['steps']
    if len(steps) <= 1:
        return record
    best = {'rec': record}
    quiet = Ctx0(ctx)

    def test(prefix):
        data = dict(record['replay'])
        data['steps'] = prefix + [steps[-1]]
        out = replay_machine(quiet, prof, data)
        for r in out:
            if json.dumps(r['signature'], sort_keys=True, default=str) == key:
                best['rec'] = r
                return True
        return False

    try:
        if test([]):
            return best['rec']
        ddmin(steps[:-1], test)
    except Exception:
        return record
    return best['rec']


class Ctx0(object):
    """A context whose statistics are thrown away (used while shrinking)."""

    def __init__(self, ctx):
        from pv.runner import Stats
        self.stats = Stats()
        self.known = ctx.known
        self.seed = ctx.seed
        self.tier = ctx.tier
        self.thorough = ctx.thorough


def replay_machine(ctx, prof, data):
    """Re-execute a recorded request sequence without Hypothesis."""
    rec = Recorder(ctx, prof)
    cls = type('R_' + prof.name, (ApiMachine,), {'prof': prof, 'rec': rec})
    m = cls()
    m.config = dict(data.get('config') or {})
    apply_config(m)
    if data.get('start'):
        start_from_state(m, data['start'])
    out = []
    for req in data['steps']:
        try:
            m.do(req, count=False)
        except Violation:
            key, record = rec.last_fail
            out.append(record)
            break
    reset_config(m)
    return out


def apply_config(m):
    for k, val in m.config.items():
        group, name = k.split('.')
        m.svc.conf.set_override(name, val, group=group)


def reset_config(m):
    for k in m.config:
        group, name = k.split('.')
        m.svc.conf.clear_override(name, group=group)
