"""C07 - concurrent claims are serializable and never jointly over-commit."""
from pv import cgen, engc
from pv.props import common as C

LEVEL = 'exploration'
ASSUMPTIONS = C.ASSUMPTIONS[:2] + [
    'transaction-granularity interleaving: the harness switches request '
    'threads only when no top-level transaction is open (pool checkin with '
    'zero checked-out connections), i.e. the serializable-DBMS model of the '
    'property; finer interleavings and real lock waits are out of scope',
    'SQLite file database shared by the request threads (NullPool: one '
    'connection per transaction)']
RULE = ('Hypothesis-generated start states (<= 4 providers) and sets of 2-3 '
        'contending requests carrying correct generations: several consumers '
        'for the last units of one inventory, allocation write vs inventory '
        'shrink / class removal / single-inventory PUT or DELETE / provider '
        'delete, POST /allocations moving usage vs PUT of the same consumer, '
        'trait or aggregate update vs allocation writes (server-side retry '
        'path), reshape vs allocation write. Schedules: every atomic insertion '
        'of one request at every scheduling point of another (exhaustive), '
        'sampled two-splits, Hypothesis-generated free schedules. Oracle: the '
        '2xx requests replayed serially from the start snapshot in commit '
        'order (else any permutation) all succeed and end in a raw dump equal '
        'to the concurrent run\'s (providers, inventories, allocations, '
        'consumers, associations, all generations), which also shows that '
        'requests answered with an error had no effect. One shape is exempt '
        'from serial equivalence (not from the state invariants): an unguarded '
        'DELETE /allocations/{c} racing a write of the same consumer, which '
        'the statement does not quantify over. Non-trivial = a schedule in which a request is preempted '
        'between two of its own transactions by a state-changing transaction '
        'of another; distinct = distinct (state, requests, schedule).')


def oracle(ctx, svc, snap, start, reqs, race, schedule):
    # an error answer (of any status) with no effect is allowed by C07; what
    # status a loser must get is C05's and C06's business
    if unguarded_delete_of_written_consumer(reqs):
        # DELETE /allocations/{c} carries no consumer generation and is not
        # one of the writes the statement quantifies over: it removes the rows
        # it read, so a PUT of the same consumer committing in between
        # survives and both answer 204, which no serial order gives.  What
        # must still hold: the state invariants (engc.integrity, run for every
        # schedule: no dangling rows, consumers of all allocations exist, no
        # new over-commitment) and that error answers had no effect.
        ctx.stats.count('serial equivalence not demanded: unguarded DELETE '
                        '/allocations of a consumer another racer writes')
        engc.loser_no_effect(race, start, reqs)
        return
    engc.serial_equivalent(ctx, svc, snap, start, reqs, race)


def unguarded_delete_of_written_consumer(reqs):
    for n, r in reqs.items():
        if r['op'] != 'delete_allocations':
            continue
        mine = set(r.get('consumers') or [])
        for m, o in reqs.items():
            if m != n and mine & set(o.get('consumers') or []):
                return True
    return False


def run_worker(ctx):
    engc.run_cases(ctx, cgen.contention_case, oracle,
                   examples=ctx.pick(8, 50))


def replay(ctx, data):
    return engc.replay(ctx, oracle, data)
