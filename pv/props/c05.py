"""C05 - a write guarded by a provider generation succeeds only against that generation."""
from pv import cgen, engc, gen, sched
from pv.props import c07
from pv.props import common as C
from pv.runner import Violation

LEVEL = 'exploration'
ASSUMPTIONS = c07.ASSUMPTIONS
RULE = ('Hypothesis-generated start states and 2-3 concurrent requests on one '
        'provider drawn from generation-carrying writes (PUT inventories, PUT '
        'one inventory, PUT traits, PUT aggregates >= 1.19, POST /reshaper; '
        'carried generation current, current-1 or current+1, equal among the '
        'racers or not; every write changes something) and self-deriving ones '
        '(POST/DELETE inventory, DELETE traits, DELETE inventories, PUT/POST '
        'allocations). Schedules: all atomic insertions (exhaustive), sampled '
        'two-splits, free schedules. Oracle: provider generation sampled with '
        'raw SQL at every scheduling point; a 2xx generation-carrying request '
        'carried exactly the generation stored immediately before its write '
        'transaction; among requests carrying the same generation at most one '
        'is 2xx; no 5xx or escaped exception; a rejected generation-carrying '
        'request is 409 placement.concurrent_update whenever the stale '
        'generation is the only thing wrong with it (the same request with '
        'the then-current generation succeeds after the winners); a rejected '
        'request committed nothing but rows it removed again; final raw dump equals the '
        'serial replay of the 2xx requests. Non-trivial = a schedule in which '
        'another request\'s write commits between a request\'s transactions; '
        'distinct = distinct (state, requests, schedule).')


def carried_gen(req):
    b = req['b']
    if req['op'] == 'reshaper':
        inv = b['inventories']
        u = req.get('target') or sorted(inv)[0]
        return u, inv[u]['resource_provider_generation']
    if isinstance(b, dict) and 'resource_provider_generation' in b:
        return req['target'], b['resource_provider_generation']
    return None, None


def oracle(ctx, svc, snap, start, reqs, race, schedule):
    engc.no_server_error(reqs, race)
    carriers = {}
    for n, r in reqs.items():
        u, g = carried_gen(r)
        if u is not None:
            carriers[n] = (u, g)
    by_gen = {}
    for n, (u, g) in carriers.items():
        resp = race.responses[n]
        if resp.ok:
            by_gen.setdefault((u, g), []).append(n)
            before = race.state_before_last_write(n, start)
            if before is not None and u in before.providers:
                stored = before.providers[u]['generation']
                if stored != g:
                    raise Violation(
                        {'clause': 'accepted-with-other-generation',
                         'op': reqs[n]['op']},
                        {'carried': g, 'stored_before_write': stored,
                         'request': n})
        elif resp.status != 409:
            # a rejected generation-carrying write: 409 unless the request
            # is rejected for another documented reason in some serial order
            pass
    for (u, g), names in by_gen.items():
        if len(names) > 1:
            raise Violation(
                {'clause': 'two-successes-with-same-generation',
                 'ops': '+'.join(sorted(reqs[n]['op'] for n in names))},
                {'provider': u, 'generation': g, 'requests': names})
    engc.loser_no_effect(race, start, reqs)
    order = engc.serial_equivalent(ctx, svc, snap, start, reqs, race)
    for n in carriers:
        engc.loser_status(ctx, svc, snap, reqs, race, order, n)


def run_worker(ctx):
    engc.run_cases(ctx, cgen.provider_race_case, oracle,
                   examples=ctx.pick(8, 80))


def replay(ctx, data):
    return engc.replay(ctx, oracle, data)
