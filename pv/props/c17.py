"""C17 - database faults end in an exactly-once retry or a clean failure."""
import json

import hypothesis
from hypothesis import HealthCheck, Phase, given, settings, strategies as st

from pv import bgen, cgen, corpus, faults, gen, machine
from pv.dump import dump
from pv.props import common as C
from pv.runner import Violation, stable_hash

LEVEL = 'fault_enumeration'
ASSUMPTIONS = C.ASSUMPTIONS[:2] + [
    'faults are sqlite3 exceptions raised from SQLAlchemy dialect do_execute* '
    'events, so they pass through SQLAlchemy error handling, oslo.db '
    'exception filters and wrap_db_retry like driver errors; a harness-'
    'registered oslo.db filter maps the injected deadlock text to DBDeadlock '
    'as the MySQL/PostgreSQL filters do; oslo_db.api.time.sleep is a no-op',
    'MySQL deadlock behaviour (server rolls the victim transaction back) is '
    'emulated by issuing ROLLBACK; BEGIN on the DBAPI connection before '
    'raising; the lock-wait-timeout variant leaves the transaction open',
    'whether a fault is inside a retry scope is read from the Python stack at '
    'injection time (frames of _set_allocations, _trait_sync, '
    '_resource_classes_sync, _set_aggregates)']
RULE = ('Corpus of Hypothesis-generated (state, request) pairs over every '
        'write route (provider create/update/delete, inventory POST/PUT/'
        'DELETE, traits, aggregates incl. first use of an aggregate, classes, '
        'PUT/POST/DELETE allocations for new and existing consumers with '
        'changed project/user, reshaper) plus start-up synchronisation from '
        'empty and partially synchronised tables. For each pair the request '
        'is first run fault-free from the snapshot (reference outcome R, N '
        'statements), then re-run from the same snapshot once for EVERY '
        'statement index k < N and every fault kind (deadlock with server-side '
        'rollback, deadlock with open transaction, duplicate key on INSERTs '
        'into uniquely keyed tables, I/O error; thorough: also disconnect and '
        'pairs of faults). Oracle: deadlock inside a retry scope / duplicate '
        'inside _set_aggregates => same status as R and raw dump equal to '
        'R\'s (generations > before and >= R\'s); any other fault => either '
        'that, or a well-formed JSON error response with the raw dump equal '
        'to the pre-request dump (projects/users/consumer types may grow). '
        'Non-trivial = a fault that strikes after the request\'s first '
        'INSERT/UPDATE/DELETE; distinct = distinct (state, request, k, kind).')
EXHAUSTIVE = False

WRITE_OPS = ['create_rp', 'update_rp', 'delete_rp', 'put_inventories',
             'post_inventory', 'put_inventory', 'delete_inventory',
             'delete_inventories', 'put_rp_traits', 'delete_rp_traits',
             'put_rp_aggregates', 'put_rp_aggregates', 'put_trait',
             'delete_trait', 'put_class', 'post_class', 'delete_class',
             'put_allocations', 'put_allocations', 'put_allocations_existing',
             'put_allocations_existing', 'post_allocations',
             'post_allocations', 'delete_allocations', 'reshaper', 'reshaper',
             'put_allocations_clear', 'move_subtree', 'move_subtree',
             'post_allocations_existing', 'delete_allocations_held',
             'put_rp_aggregates_swap', 'put_rp_traits_swap',
             'put_allocations_existing_old']
PROFILE = machine.Profile('c17', 'C17', ops=[(1, o) for o in WRITE_OPS],
                          oracles=[], nontrivial=lambda *a: False,
                          defect_rate=0)


def build_request(draw, d):
    name = draw(st.sampled_from(WRITE_OPS))
    if name in corpus.EXTRA:
        return corpus.EXTRA[name](draw, d, PROFILE)
    if name == 'put_allocations_existing':
        held = sorted(d.consumers)
        pairs = sorted(k for k in d.inventories
                       if cgen.legal_amounts(d, *k))
        if held and pairs:
            c = draw(st.sampled_from(held))
            rp, rc = draw(st.sampled_from(pairs))
            a = draw(st.sampled_from(
                cgen.legal_amounts(d, rp, rc, excluding=(c,)) or [1]))
            v = (1, draw(st.sampled_from([38, 39, 28, 27, 12])))
            other_p = [p for p in gen.PROJECTS + ['proj-new']
                       if p != d.consumers[c]['project']]
            r = cgen.put_alloc(d, c, {(rp, rc): a}, v,
                               project=draw(st.sampled_from(other_p)),
                               user=draw(st.sampled_from(gen.USERS)),
                               ctype=draw(st.sampled_from(gen.CTYPES)))
            r['labels'] = ['existing-consumer-changed-project']
            return r
        name = 'put_allocations'
    if name == 'put_rp_aggregates' and d.providers and draw(st.booleans()):
        # first use of an aggregate: exercises _ensure_aggregate's INSERT
        u = draw(st.sampled_from(sorted(d.providers)))
        new = [a for a in gen.AGGS + [gen.GHOST_AGG] if a not in d.aggregates]
        if new:
            g = d.providers[u]['generation']
            return gen.R('PUT', '/resource_providers/%s/aggregates' % u,
                         (1, 19), {'resource_provider_generation': g,
                                   'aggregates': [new[0]]},
                         'put_rp_aggregates', ['new-aggregate'], target=u)
    return machine.build(draw, d, PROFILE, name)


def wellformed_error(resp):
    if resp.escaped or resp.status < 400:
        return False
    j = resp.json
    try:
        e = j['errors'][0]
        return e['status'] == resp.status and 'title' in e and 'detail' in e
    except Exception:
        return False


def view(d):
    return {
        'providers': {u: (p['name'], p['parent'], p['root'])
                      for u, p in d.providers.items()},
        'inventories': d.inventories,
        'allocations': d.allocations,
        'consumers': {u: (c['project'], c['user'], c['type'])
                      for u, c in d.consumers.items()},
        'rp_traits': d.rp_traits, 'rp_aggs': d.rp_aggs,
        'traits': set(d.traits), 'classes': set(d.classes),
        'class_ids': {n: i for n, i in d.classes.items() if i < 10000},
    }


def view_diff(a, b):
    out = []
    for k in a:
        if a[k] == b[k]:
            continue
        if isinstance(a[k], dict):
            for kk in sorted(set(a[k]) | set(b[k]), key=repr)[:50]:
                if a[k].get(kk) != b[k].get(kk):
                    out.append('%s[%s]: %r vs %r' % (k, kk, a[k].get(kk),
                                                     b[k].get(kk)))
        else:
            out.append('%s: only-first %r only-second %r' % (
                k, sorted(a[k] - b[k])[:5], sorted(b[k] - a[k])[:5]))
    return out


def gens(d):
    g = {('p', u): p['generation'] for u, p in d.providers.items()}
    g.update({('c', u): c['generation'] for u, c in d.consumers.items()})
    return g


def same_as_reference(before, ref, got):
    """Equal to the fault-free outcome; generations: > before where R's is,
    and >= R's (a repeated bump is not a second effect)."""
    df = view_diff(view(ref), view(got))
    if df:
        return df
    gb, gr, gg = gens(before), gens(ref), gens(got)
    out = []
    for k in gr:
        if k not in gg:
            out.append('generation of %r missing' % (k,))
        elif gg[k] < gr[k]:
            out.append('generation of %r is %s, reference %s' % (
                k, gg[k], gr[k]))
        elif gr[k] == gb.get(k) and gg[k] != gr[k]:
            out.append('generation of %r changed (%s -> %s) though the '
                       'fault-free run leaves it' % (k, gr[k], gg[k]))
    return out


def unchanged(before, got):
    df = view_diff(view(before), view(got))
    gb, gg = gens(before), gens(got)
    if any(gg[k] != gb[k] for k in gb if k in gg):
        df.append('generations changed')
    return df


def check_pair(ctx, svc, inj, snap, before, req, kinds, desc=None,
               only=None, on_violation=None):
    """on_violation(v) -> True to stop with v, False to count it (known
    finding, or a signature already collected) and go on with the remaining
    fault positions of this pair."""
    stats = ctx.stats
    svc.restore(snap)
    inj.start()
    ref_resp = machine.execute(svc, req)
    n = inj.stop()
    stmts = list(inj.statements)
    ref = dump(svc.dbpath)
    stats.count('corpus %s -> %s' % (req['op'], ref_resp.status))
    first_write = next((i for i, s in enumerate(stmts)
                        if s.lstrip().upper().startswith(
                            ('INSERT', 'UPDATE', 'DELETE'))), None)
    todo = [(k, kind) for k in range(n) for kind in kinds]
    if only is not None:
        todo = [tuple(only)]
    for (k, kind) in todo:
        svc.restore(snap)
        inj.start(k, kind)
        resp = machine.execute(svc, req)
        inj.stop()
        info = inj.fired
        if info is None or info.get('skipped'):
            stats.count('not injectable (%s)' % kind)
            continue
        got = dump(svc.dbpath)
        stats.evaluations += 1
        retry_scope = inj.in_retry_scope(info)
        case = {'k': k, 'kind': kind}
        df_ref = None
        ok_ref = (resp.status == ref_resp.status)
        if kind == 'duplicate' and resp.ok and ref_resp.ok:
            # losing a creation race legitimately turns "created" into
            # "already exists" (201 -> 204); the stored effect must be R's
            ok_ref = True
        if ok_ref:
            df_ref = same_as_reference(before, ref, got)
            ok_ref = not df_ref
        df_clean = unchanged(before, got)
        ok_clean = wellformed_error(resp) and not df_clean
        outcome = 'as-reference' if ok_ref else 'clean-failure' if ok_clean \
            else 'BAD'
        stats.count('%s %s -> %s' % (
            kind, 'in retry scope' if retry_scope else 'outside retry scope',
            outcome))
        if first_write is not None and k > first_write:
            stats.nontriv(stable_hash([desc, req, k, kind]))
            if len(stats.samples) < stats.MAX_SAMPLES and retry_scope:
                stats.sample({'request': '%s %s @%s' % (req['m'], req['p'],
                                                        req['v']),
                              'statements': n, 'fault_at': k, 'kind': kind,
                              'statement': info['statement'],
                              'status': resp.status,
                              'reference_status': ref_resp.status,
                              'retries_slept': inj.sleeps})
        if ok_ref or (ok_clean and not retry_scope):
            continue
        if kind == 'duplicate' and not retry_scope and \
                (resp.ok or wellformed_error(resp)):
            # The racing process's row is emulated inside this request's own
            # transaction and disappears with it if that is rolled back
            # (where the real row would stay).  So outside retry scopes a
            # duplicate fault is judged per table: each table must be as
            # before the request or as after the fault-free run.
            vb, vr, vg = view(before), view(ref), view(got)
            if all(vg[t] in (vb[t], vr[t]) for t in vg):
                stats.count('duplicate outside retry scope -> per-table ok')
                continue
        if resp.escaped:
            clause = 'exception-escaped'
        elif retry_scope and ok_clean:
            clause = 'retryable-fault-not-retried'
        elif retry_scope and resp.status == ref_resp.status:
            clause = 'retried-but-effect-differs'
        elif retry_scope:
            clause = 'retried-but-status-differs'
        elif not wellformed_error(resp) and resp.status >= 400:
            clause = 'error-response-malformed'
        elif resp.status >= 400:
            clause = 'failed-request-changed-state'
        else:
            clause = 'success-with-wrong-effect'
        tables = sorted({x.split('[')[0].split(':')[0]
                         for x in (df_ref if (df_ref and resp.status ==
                                              ref_resp.status) else df_clean)})
        fnames = [f[1] for f in info['frames']]
        site = ('consumer-cleanup' if 'delete_consumers' in fnames else
                'write-transaction' if (
                    '_update_consumers_and_create_allocations' in fnames or
                    '_set_allocations' in fnames) else 'other')
        v = Violation(
            {'clause': clause, 'kind': kind, 'op': req['op'],
             'scope': 'retry' if retry_scope else 'other',
             'tables': '+'.join(tables), 'site': site},
            {'case': case, 'status': resp.status,
             'reference_status': ref_resp.status, 'code': resp.code(),
             'fault': info, 'diff_vs_reference': (df_ref or [])[:8],
             'diff_vs_before': df_clean[:8], 'escaped': resp.escaped,
             'statements': n})
        if on_violation is None or on_violation(v):
            raise v


# ------------------------------------------------------------ start-up sync
def sync_case(ctx, svc, inj, draw, kinds, only=None, variant=None):
    """update_database() from an empty or partially synchronised database."""
    import sqlite3
    from placement import deploy
    from placement.objects import resource_class, trait
    stats = ctx.stats
    if variant is None:
        variant = {'base': draw(st.sampled_from(['empty', 'partial'])),
                   'drop_traits': draw(st.integers(1, 40)),
                   'drop_classes': draw(st.integers(0, 5))}

    def prepare():
        if variant['base'] == 'empty':
            svc.restore(svc.empty)
        else:
            svc.restore(machine.base_snapshot(svc))
            con = sqlite3.connect(svc.dbpath)
            con.execute('DELETE FROM traits WHERE name NOT LIKE "CUSTOM_%%" '
                        'AND id %% 41 < %d' % variant['drop_traits'])
            con.execute('DELETE FROM resource_classes WHERE id < %d'
                        % variant['drop_classes'])
            con.commit()
            con.close()
        trait._TRAITS_SYNCED = False
        resource_class._RESOURCE_CLASSES_SYNCED = False

    def run():
        try:
            deploy.update_database(svc.conf)
            return None
        except Exception as e:
            return '%s: %s' % (type(e).__name__, str(e)[:100])

    prepare()
    before = dump(svc.dbpath)
    inj.start()
    err = run()
    n = inj.stop()
    ref = dump(svc.dbpath)
    assert err is None, err
    stats.count('corpus startup-sync (%s)' % variant['base'])
    todo = [(k, kind) for k in range(n) for kind in kinds]
    if only is not None:
        todo = [tuple(only)]
    try:
        for (k, kind) in todo:
            prepare()
            inj.start(k, kind)
            err = run()
            inj.stop()
            info = inj.fired
            if info is None or info.get('skipped'):
                continue
            got = dump(svc.dbpath)
            stats.evaluations += 1
            retry_scope = inj.in_retry_scope(info)
            ok_ref = err is None and not view_diff(view(ref), view(got))
            ok_clean = err is not None and not view_diff(view(before),
                                                         view(got))
            # a sync that failed half-way may have completed the first of
            # the two tables: that is still "as if" a later start-up finishes
            partial_ok = err is not None and set(before.traits) <= \
                set(got.traits) <= set(ref.traits) and \
                set(before.classes) <= set(got.classes) <= set(ref.classes) \
                and (set(got.traits) in (set(before.traits), set(ref.traits)))\
                and (set(got.classes) in (set(before.classes),
                                          set(ref.classes)))
            stats.count('sync %s %s -> %s' % (
                kind, 'in retry scope' if retry_scope else 'outside',
                'as-reference' if ok_ref else 'clean-failure'
                if (ok_clean or partial_ok) else 'BAD'))
            stats.nontriv(stable_hash(['sync', variant, k, kind]))
            if err is not None and (ok_clean or partial_ok) and \
                    not retry_scope:
                # a failed start-up is followed by another one in the same
                # process (the WSGI server re-loads the application): that
                # one must complete the synchronisation
                err2 = run()
                got2 = dump(svc.dbpath)
                stats.evaluations += 1
                if err2 is not None or view_diff(view(ref), view(got2)):
                    raise Violation(
                        {'clause': 'startup-after-failed-startup-incomplete',
                         'kind': kind, 'op': 'startup-sync'},
                        {'case': {'k': k, 'kind': kind, 'sync': variant},
                         'first_error': err, 'second_error': err2,
                         'fault': info, 'diff_vs_reference':
                             view_diff(view(ref), view(got2))[:6]})
            if ok_ref or ((ok_clean or partial_ok) and not retry_scope):
                continue
            raise Violation(
                {'clause': 'sync-retryable-fault-not-exactly-once'
                 if retry_scope else 'sync-fault-left-partial-table',
                 'kind': kind, 'op': 'startup-sync'},
                {'case': {'k': k, 'kind': kind, 'sync': variant},
                 'error': err, 'fault': info,
                 'diff_vs_reference': view_diff(view(ref), view(got))[:6]})
    finally:
        trait._TRAITS_SYNCED = True
        resource_class._RESOURCE_CLASSES_SYNCED = True


def kinds_for(ctx):
    k = ['deadlock-rollback', 'deadlock-open', 'duplicate', 'io-error']
    if ctx.thorough:
        k.append('disconnect')
    return k


def run_worker(ctx):
    svc = machine.service()
    base = machine.base_snapshot(svc)
    inj = faults.Injector.get(svc)
    skip = set()
    last = {}
    kinds = kinds_for(ctx)
    per_state = ctx.pick(4, 8)

    def body(data):
        if data.draw(st.integers(0, 9)) == 9:
            try:
                sync_case(ctx, svc, inj, data.draw, kinds)
            except Violation as v:
                if handle(v, None, None):
                    raise
            return
        desc = data.draw(bgen.states(max_providers=4))
        bgen.build_state(svc, desc, base)
        before = dump(svc.dbpath)
        snap = svc.snapshot()
        for _ in range(per_state):
            req = build_request(data.draw, before)
            # known findings and signatures already collected are counted
            # and the remaining fault positions of the pair are still tried
            check_pair(ctx, svc, inj, snap, before, req, kinds, desc,
                       on_violation=lambda v, r=req: handle(v, desc, r))

    def handle(v, desc, req):
        sig = dict(v.signature)
        sig.setdefault('prop', ctx.prop)
        known = ctx.known.match(sig)
        if known is not None:
            ctx.stats.known[known['id']] = \
                ctx.stats.known.get(known['id'], 0) + 1
            return False
        key = json.dumps(sig, sort_keys=True, default=str)
        if key in skip:
            return False
        rec = {'signature': sig, 'detail': v.detail,
               'replay': {'state': desc, 'req': req,
                          'case': (v.detail or {}).get('case')}}
        last['fail'] = (key, rec)
        return True

    examples = ctx.pick(3, 40)
    for rnd in range(4):
        last.pop('fail', None)
        test = given(st.data())(body)
        test = hypothesis.seed(ctx.seed + rnd)(test)
        test = settings(
            max_examples=examples, deadline=None, database=None,
            suppress_health_check=list(HealthCheck),
            report_multiple_bugs=False, print_blob=False,
            phases=[Phase.generate],
            verbosity=hypothesis.Verbosity.quiet)(test)
        try:
            test()
            break
        except (Violation, hypothesis.errors.Flaky) as exc:
            # Flaky: the tested code answered differently when Hypothesis
            # re-ran the failing example (e.g. hash-order dependence); the
            # violation recorded at its first occurrence stands
            if 'fail' not in last:
                raise
            key, rec = last['fail']
            if not isinstance(exc, Violation):
                rec['detail'] = dict(rec.get('detail') or {},
                                     nondeterministic_on_rerun=True)
            skip.add(key)
            ctx.stats.violations.append(rec)


def replay(ctx, data):
    svc = machine.service()
    base = machine.base_snapshot(svc)
    inj = faults.Injector.get(svc)
    case = data['case']
    try:
        if data.get('req') is None:
            sync_case(ctx, svc, inj, None, kinds_for(ctx),
                      only=(case['k'], case['kind']), variant=case['sync'])
        else:
            bgen.build_state(svc, data['state'], base)
            before = dump(svc.dbpath)
            snap = svc.snapshot()
            check_pair(ctx, svc, inj, snap, before, data['req'],
                       kinds_for(ctx), data['state'],
                       only=(case['k'], case['kind']))
    except Violation as v:
        sig = dict(v.signature)
        sig.setdefault('prop', ctx.prop)
        if ctx.known.match(sig) is not None:
            print('(matches a known finding)')
        return [{'signature': sig, 'detail': v.detail}]
    return []
