"""C13 - provider listing filters select exactly the matching providers."""
from hypothesis import strategies as st

from pv import acref, bgen, engb, gen
from pv.props import common as C
from pv.runner import Violation, stable_hash

LEVEL = 'exploration'
ASSUMPTIONS = C.ASSUMPTIONS
RULE = ('Hypothesis-generated (state, filter, microversion) triples: C03-scope '
        'states built through the API x combinations of name, uuid, in_tree, '
        'member_of (repeated, in:, !, !in:), required (repeated, in:, !) and '
        'resources at the microversions that allow each form, values drawn '
        'from the state plus unknown uuids/aggregates. Oracle: set equality '
        'with a set comprehension over the raw dump (direct aggregate '
        'membership, own traits, per-class room under capacity/min/max/step); '
        'unknown in_tree/uuid or only-unknown aggregates => []; unknown trait '
        '(required, forbidden - alone or next to known ones -, any-of member) '
        'or class => 400. Non-trivial = >= 2 filters active and 0 < |result| < '
        '|providers|; distinct = distinct (state, filter).')


def check(ctx, svc, d, f, version, qs, desc=None, expect_400=False):
    r = svc.request('GET', '/resource_providers?' + qs,
                    version='1.%d' % version)
    stats = ctx.stats
    stats.evaluations += 1
    case = {'filter': f.to_json(), 'version': version, 'qs': qs,
            'expect_400': expect_400}
    if expect_400:
        stats.count('unknown trait/class -> %s' % r.status)
        if r.status != 400:
            raise Violation({'clause': 'unknown-name-not-400',
                             'status': r.status}, {'case': case})
        return
    if r.status != 200:
        raise Violation({'clause': 'unexpected-status', 'status': r.status},
                        {'case': case, 'response': r.json})
    got_list = [p['uuid'] for p in r.json['resource_providers']]
    got = set(got_list)
    want = acref.list_providers(d, f)
    stats.count('filters %d' % f.active())
    stats.count('result %s' % ('empty' if not want else 'all'
                               if len(want) == len(d.providers) else 'some'))
    if f.active() >= 2 and 0 < len(want) < len(d.providers):
        stats.nontriv(stable_hash([desc, case['filter'], version]))
        if len(stats.samples) < stats.MAX_SAMPLES:
            stats.sample({'version': '1.%d' % version, 'query': qs,
                          'providers': len(d.providers),
                          'matching': len(want)})
    if len(got) != len(got_list) or got != want:
        raise Violation(
            {'clause': 'omitted' if want - got else 'spurious'
             if got - want else 'duplicates'},
            {'case': case, 'omitted': sorted(want - got),
             'spurious': sorted(got - want)})
    # each returned provider is the stored one
    for p in r.json['resource_providers']:
        st_ = d.providers[p['uuid']]
        if p['name'] != st_['name'] or p['generation'] != st_['generation']:
            raise Violation({'clause': 'listed-provider-differs'},
                            {'case': case, 'provider': p})


def case_fn(ctx, svc, d, draw, desc, snap):
    version = draw(st.sampled_from(
        [39, 39, 38, 32, 31, 24, 23, 22, 21, 18, 17, 14, 13, 4, 3, 0]))
    f = draw(bgen.rp_filters(d, version))
    expect_400 = False
    if draw(st.integers(0, 19)) == 7 and version >= 18:
        f.required.append({'CUSTOM_PV_NOPE'})
        expect_400 = True
    elif draw(st.integers(0, 19)) == 7 and version >= 4:
        f.resources['CUSTOM_PV_NOPE'] = 1
        expect_400 = True
    elif draw(st.integers(0, 19)) == 7 and version >= 22:
        # an unknown name among the forbidden traits, alone or next to known
        # ones
        if draw(st.booleans()):
            known = [t for t in gen.TRAITS
                     if not any(t in a for a in f.required)]
            if known:
                f.forbidden.add(draw(st.sampled_from(known)))
        f.forbidden.add('CUSTOM_PV_NOPE')
        expect_400 = True
    elif draw(st.integers(0, 29)) == 7 and version >= 39:
        # an unknown name inside an any-of set
        f.required.append({'CUSTOM_PV_NOPE', draw(st.sampled_from(
            gen.TRAITS))})
        expect_400 = True
    qs = f.render(version, draw)
    check(ctx, svc, d, f, version, qs, desc, expect_400)


def replay_case(ctx, svc, d, case, desc):
    f = acref.RPFilter.from_json(case['filter'])
    check(ctx, svc, d, f, case['version'], case['qs'], desc,
          case.get('expect_400', False))


def run_worker(ctx):
    engb.run_cases(ctx, case_fn, examples=ctx.pick(25, 400),
                   queries_per_state=ctx.pick(16, 30))


def replay(ctx, data):
    import sys
    return engb.replay_case(ctx, sys.modules[__name__], data)
