"""C14 - each microversion exposes exactly its documented surface."""
import json

from pv import gen, machine
from pv.runner import Violation, stable_hash

LEVEL = 'exploration'
EXHAUSTIVE = False   # (a)-(c) are enumerated completely, (d) is sampled
ASSUMPTIONS = [
    'route/method availability table and the versioned-feature table below '
    'are transcribed by hand from placement/rest_api_version_history.rst and '
    'the API reference, not read from placement\'s routing table or handlers',
    'one fixed fixture state (two-level tree, inventories, traits, '
    'aggregates, one consumer) restored before every request',
    'requests are sent as an admin through the full WSGI pipeline']
RULE = ('Exhaustive enumeration, no sampling: (a) every route of the API x '
        '{GET, PUT, POST, DELETE, HEAD, OPTIONS, PATCH} x {1.0 ... 1.39, '
        'latest, no header, 1.40, 0.9, 2.0, malformed} on existing entities '
        'with a plausible body: status must be 404 / 405 / 406 exactly where '
        'the hand-written table says the route / method / version does not '
        'exist and must not be 404/405/406/5xx elsewhere; (b) a table of '
        'versioned features (first version, optional last version, probing '
        'request, predicate on the response) evaluated at all 40 versions: '
        'predicate holds <=> first <= v <= last; (c) every response to a '
        'request whose version was accepted carries openstack-api-version: '
        'placement <applied version> and a Vary header naming it. '
        '(d) Hypothesis-generated valid requests for every route in generated '
        'states, each replayed at all 40 versions, latest and no header: '
        'never a 5xx, always the applied version and Vary; (e) generated '
        'allocation-candidate and provider-listing queries: accepted (200) '
        'at the first microversion whose documented syntax can express them '
        'and at 1.39, refused (400) at the version just below; for the '
        'accepted (unlimited) candidate queries provider_summaries holds '
        'exactly the providers of the allocation requests below 1.29 and '
        'exactly the members of their trees from 1.29. '
        'Non-trivial = a matrix cell whose expected answer is 404/405/406, or '
        'a feature probe at one of its boundary versions; distinct = distinct '
        '(route, method, version) or (feature, version).')

P1 = gen.PROV[0]
P2 = gen.PROV[1]
P3 = gen.PROV[2]
P4 = gen.PROV[3]
C1 = gen.CONS[0]
C2 = gen.CONS[1]
C3 = gen.CONS[2]
AGG = gen.AGGS[0]
AVX = 'HW_CPU_X86_AVX2'
SSD = 'STORAGE_DISK_SSD'
ADMIN_ONLY = {}


def build_fixture(svc):
    svc.restore(machine.base_snapshot(svc))

    def ok(r, *codes):
        assert r.status in codes, (r.status, r.body)
        return r
    ok(svc.request('POST', '/resource_providers', version='1.39',
                   body={'name': 'p1', 'uuid': P1}), 200)
    ok(svc.request('POST', '/resource_providers', version='1.39',
                   body={'name': 'p2', 'uuid': P2,
                         'parent_provider_uuid': P1}), 200)
    ok(svc.request('PUT', '/resource_providers/%s/inventories' % P1,
                   version='1.39',
                   body={'resource_provider_generation': 0, 'inventories': {
                       'VCPU': {'total': 8}, 'DISK_GB': {'total': 100},
                       'MEMORY_MB': {'total': 64}}}), 200)
    ok(svc.request('PUT', '/resource_providers/%s/traits' % P1,
                   version='1.39',
                   body={'resource_provider_generation': 1,
                         'traits': [AVX]}), 200)
    ok(svc.request('PUT', '/resource_providers/%s/aggregates' % P1,
                   version='1.39',
                   body={'resource_provider_generation': 2,
                         'aggregates': [AGG]}), 200)
    ok(svc.request('PUT', '/resource_providers/%s/inventories' % P2,
                   version='1.39',
                   body={'resource_provider_generation': 0, 'inventories': {
                       'CUSTOM_PV_A': {'total': 4}}}), 200)
    ok(svc.request('PUT', '/allocations/' + C1, version='1.39',
                   body={'allocations': {P1: {'resources': {'VCPU': 1}}},
                         'project_id': 'proj-a', 'user_id': 'user-a',
                         'consumer_generation': None,
                         'consumer_type': 'INSTANCE'}), 204)
    # a second child of p1, so that a move inside one tree is possible
    ok(svc.request('POST', '/resource_providers', version='1.39',
                   body={'name': 'p4', 'uuid': P4,
                         'parent_provider_uuid': P1}), 200)
    # a consumer written before consumer types existed (type NULL)
    ok(svc.request('POST', '/resource_providers', version='1.39',
                   body={'name': 'p3', 'uuid': P3}), 200)
    ok(svc.request('PUT', '/resource_providers/%s/inventories' % P3,
                   version='1.39',
                   body={'resource_provider_generation': 0, 'inventories': {
                       'DISK_GB': {'total': 10}}}), 200)
    ok(svc.request('PUT', '/allocations/' + C3, version='1.37',
                   body={'allocations': {P3: {'resources': {'DISK_GB': 1}}},
                         'project_id': 'proj-b', 'user_id': 'user-b',
                         'consumer_generation': None}), 204)
    return svc.snapshot()


# ------------------------------------------------------------ (a) the matrix
# route -> (concrete path, {method: first version}, route first version)
ROUTES = [
    ('/', '/', {'GET': 0}, 0),
    ('/resource_classes', '/resource_classes', {'GET': 2, 'POST': 2}, 2),
    ('/resource_classes/{name}', '/resource_classes/CUSTOM_PV_A',
     {'GET': 2, 'PUT': 2, 'DELETE': 2}, 2),
    ('/resource_providers', '/resource_providers', {'GET': 0, 'POST': 0}, 0),
    ('/resource_providers/{uuid}', '/resource_providers/' + P2,
     {'GET': 0, 'PUT': 0, 'DELETE': 0}, 0),
    ('/resource_providers/{uuid}/inventories',
     '/resource_providers/%s/inventories' % P2,
     {'GET': 0, 'POST': 0, 'PUT': 0, 'DELETE': 5}, 0),
    ('/resource_providers/{uuid}/inventories/{resource_class}',
     '/resource_providers/%s/inventories/CUSTOM_PV_A' % P2,
     {'GET': 0, 'PUT': 0, 'DELETE': 0}, 0),
    ('/resource_providers/{uuid}/usages', '/resource_providers/%s/usages' % P1,
     {'GET': 0}, 0),
    ('/resource_providers/{uuid}/aggregates',
     '/resource_providers/%s/aggregates' % P1, {'GET': 1, 'PUT': 1}, 1),
    ('/resource_providers/{uuid}/allocations',
     '/resource_providers/%s/allocations' % P1, {'GET': 0}, 0),
    ('/allocations', '/allocations', {'POST': 13}, 13),
    ('/allocations/{consumer_uuid}', '/allocations/' + C1,
     {'GET': 0, 'PUT': 0, 'DELETE': 0}, 0),
    ('/allocation_candidates', '/allocation_candidates?resources=VCPU:1',
     {'GET': 10}, 10),
    ('/traits', '/traits', {'GET': 6}, 6),
    ('/traits/{name}', '/traits/CUSTOM_PV_T',
     {'GET': 6, 'PUT': 6, 'DELETE': 6}, 6),
    ('/resource_providers/{uuid}/traits', '/resource_providers/%s/traits' % P1,
     {'GET': 6, 'PUT': 6, 'DELETE': 6}, 6),
    ('/usages', '/usages?project_id=proj-a', {'GET': 9}, 9),
    ('/reshaper', '/reshaper', {'POST': 30}, 30),
]
METHODS = ['GET', 'PUT', 'POST', 'DELETE', 'HEAD', 'OPTIONS', 'PATCH']
VERSIONS = ['1.%d' % i for i in range(40)] + \
    ['latest', None, '1.40', '0.9', '2.0', 'garbage', '1', '1.x', '-1.0']


def auth(path):
    if path.startswith('/reshaper'):
        return {'token': 'svc', 'roles': ['service']}
    return {}


def applied(version):
    if version is None:
        return 0
    if version == 'latest':
        return 39
    try:
        a, b = version.split('.')
        if a == '1' and b.isdigit() and 0 <= int(b) <= 39:
            return int(b)
    except ValueError:
        pass
    return None


def plausible_body(route, method, v):
    if method not in ('PUT', 'POST'):
        return None
    if route == '/resource_providers':
        return {'name': 'newp', 'uuid': gen.PROV[5]}
    if route == '/resource_providers/{uuid}':
        return {'name': 'renamed'}
    if route.endswith('/inventories'):
        if method == 'POST':
            return {'resource_class': 'VCPU', 'total': 3}
        return {'resource_provider_generation': 1,
                'inventories': {'CUSTOM_PV_A': {'total': 5}}}
    if route.endswith('{resource_class}'):
        return {'resource_provider_generation': 1, 'total': 6}
    if route.endswith('/aggregates'):
        if v >= 19:
            return {'resource_provider_generation': 4, 'aggregates': [AGG]}
        return [AGG]
    if route == '/allocations':
        return post_alloc_body(v, {C2: {P1: {'VCPU': 1}}})
    if route == '/allocations/{consumer_uuid}':
        return alloc_body(v, {P1: {'VCPU': 2}}, consumer_gen=1)
    if route.endswith('/traits') and route.startswith('/resource_prov'):
        return {'resource_provider_generation': 4, 'traits': [AVX, SSD]}
    if route == '/resource_classes':
        return {'name': 'CUSTOM_PV_NEW'}
    if route == '/resource_classes/{name}':
        return {'name': 'CUSTOM_PV_REN'} if v < 7 else None
    if route == '/reshaper':
        return {'inventories': {P2: {'resource_provider_generation': 1,
                                     'inventories': {
                                         'CUSTOM_PV_A': {'total': 9}}}},
                'allocations': {}}
    return {}


def alloc_body(v, placed, consumer_gen=None, project=True, ctype=True,
               mappings=None, form=None):
    """PUT /allocations body in the form microversion 1.<v> documents."""
    if form is None:
        form = 'dict' if v >= 12 else 'list'
    if form == 'dict':
        b = {'allocations': {rp: {'resources': res}
                             for rp, res in placed.items()}}
    else:
        b = {'allocations': [{'resource_provider': {'uuid': rp},
                              'resources': res}
                             for rp, res in placed.items()]}
    if project and v >= 8:
        b['project_id'], b['user_id'] = 'proj-a', 'user-a'
    if v >= 28:
        b['consumer_generation'] = consumer_gen
    if ctype and v >= 38:
        b['consumer_type'] = 'INSTANCE'
    if mappings:
        b['mappings'] = mappings
    return b


def post_alloc_body(v, entries):
    out = {}
    for c, placed in entries.items():
        e = {'allocations': {rp: {'resources': res}
                             for rp, res in placed.items()},
             'project_id': 'proj-a', 'user_id': 'user-a'}
        if v >= 28:
            e['consumer_generation'] = None
        if v >= 38:
            e['consumer_type'] = 'INSTANCE'
        out[c] = e
    return out


def matrix_cells():
    for (route, path, methods, route_first) in ROUTES:
        for m in METHODS:
            for ver in VERSIONS:
                yield (route, path, m, ver, methods, route_first)


def expected(route, m, ver, methods, route_first):
    """'406', '400/406', 404, 405 or 'ok'."""
    if route == '/':
        # the version document is served above version negotiation?  No: the
        # microversion middleware runs for it as well.
        pass
    a = applied(ver)
    if a is None:
        if ver in ('1.40', '0.9', '2.0'):
            return 406
        return '400/406'
    if m not in methods:
        # Unknown method on a known URL: 405.  A route introduced later does
        # not exist at all below its first version; placement answers 405
        # for unknown methods regardless (the route table is not versioned),
        # both are accepted there.
        return 405 if a >= route_first else '404/405'
    if a < methods[m]:
        if route.endswith('/inventories') and m == 'DELETE':
            return 405          # documented: 405 below 1.5
        return 404
    return 'ok'


def check_headers(resp, ver, what):
    a = applied(ver)
    if a is None or resp.status == 401:
        return
    want = 'placement 1.%d' % a
    got = resp.headers.get('openstack-api-version')
    if got != want:
        raise Violation({'clause': 'version-header-wrong-or-missing',
                         'status': resp.status},
                        {'request': what, 'got': got, 'want': want})
    vary = resp.headers.get('vary') or resp.headers.get('Vary') or ''
    if 'openstack-api-version' not in vary.lower():
        raise Violation({'clause': 'vary-header-missing',
                         'status': resp.status},
                        {'request': what, 'vary': vary})


# ------------------------------------------------------- (b) feature table
def links(resp):
    return {x['rel'] for x in (resp.json or {}).get('links', [])}


def cand(v, extra=''):
    return ('GET', '/allocation_candidates?resources=VCPU:1' + extra, None)


def first_summary(resp):
    s = resp.json['provider_summaries']
    return s[P1]


def F(name, first, probe, present, last=39, base=0):
    return {'name': name, 'first': first, 'last': last, 'probe': probe,
            'present': present, 'base': base}


def st(*codes):
    return lambda r: r.status in codes


FEATURES = [
    F('GET provider aggregates', 1,
      lambda v: ('GET', '/resource_providers/%s/aggregates' % P1, None),
      st(200)),
    F('PUT provider aggregates', 1,
      lambda v: ('PUT', '/resource_providers/%s/aggregates' % P1,
                 {'resource_provider_generation': 4, 'aggregates': [AGG]}
                 if v >= 19 else [AGG]), st(200)),
    F('aggregates link in provider body', 1,
      lambda v: ('GET', '/resource_providers/' + P1, None),
      lambda r: 'aggregates' in links(r)),
    F('GET /resource_classes', 2, lambda v: ('GET', '/resource_classes', None),
      st(200)),
    F('POST /resource_classes', 2,
      lambda v: ('POST', '/resource_classes', {'name': 'CUSTOM_PV_NEW'}),
      st(201)),
    F('GET /resource_classes/{name}', 2,
      lambda v: ('GET', '/resource_classes/VCPU', None), st(200)),
    F('PUT /resource_classes/{name} renames', 2,
      lambda v: ('PUT', '/resource_classes/CUSTOM_PV_T2',
                 {'name': 'CUSTOM_PV_REN'}),
      lambda r: r.status == 200 and r.json.get('name') == 'CUSTOM_PV_REN',
      last=6),
    F('member_of on GET /resource_providers', 3,
      lambda v: ('GET', '/resource_providers?member_of=' + AGG, None),
      st(200)),
    F('resources on GET /resource_providers', 4,
      lambda v: ('GET', '/resource_providers?resources=VCPU:1', None),
      st(200)),
    F('DELETE all inventories', 5,
      lambda v: ('DELETE', '/resource_providers/%s/inventories' % P2, None),
      st(204)),
    F('GET /traits', 6, lambda v: ('GET', '/traits', None), st(200)),
    F('PUT /traits/{name}', 6,
      lambda v: ('PUT', '/traits/CUSTOM_PV_NEWT', None), st(201)),
    F('GET provider traits', 6,
      lambda v: ('GET', '/resource_providers/%s/traits' % P1, None), st(200)),
    F('traits link in provider body', 6,
      lambda v: ('GET', '/resource_providers/' + P1, None),
      lambda r: 'traits' in links(r)),
    F('bodiless PUT /resource_classes/{name} creates', 7,
      lambda v: ('PUT', '/resource_classes/CUSTOM_PV_BODILESS', None),
      st(201)),
    F('PUT allocations without project_id/user_id accepted', 0,
      lambda v: ('PUT', '/allocations/' + C2,
                 alloc_body(v, {P1: {'VCPU': 1}}, project=False)),
      st(204), last=7),
    F('PUT allocations with project_id/user_id accepted', 8,
      lambda v: ('PUT', '/allocations/' + C2,
                 dict(alloc_body(max(v, 8), {P1: {'VCPU': 1}}),
                      **({} if v >= 8 else {}))
                 if v >= 8 else
                 dict(alloc_body(v, {P1: {'VCPU': 1}}),
                      project_id='proj-a', user_id='user-a')),
      st(204)),
    F('GET /usages', 9, lambda v: ('GET', '/usages?project_id=proj-a', None),
      st(200)),
    F('GET /allocation_candidates', 10, cand, st(200)),
    F('allocations link in provider body', 11,
      lambda v: ('GET', '/resource_providers/' + P1, None),
      lambda r: 'allocations' in links(r)),
    F('dict-form PUT allocations accepted', 12,
      lambda v: ('PUT', '/allocations/' + C2,
                 alloc_body(v, {P1: {'VCPU': 1}}, form='dict')), st(204),
      base=8),
    F('list-form PUT allocations accepted', 0,
      lambda v: ('PUT', '/allocations/' + C2,
                 alloc_body(v, {P1: {'VCPU': 1}}, form='list')), st(204),
      last=11),
    F('project_id/user_id in GET /allocations/{c}', 12,
      lambda v: ('GET', '/allocations/' + C1, None),
      lambda r: 'project_id' in r.json and 'user_id' in r.json),
    F('dict-form allocation_requests', 12, cand,
      lambda r: isinstance(r.json['allocation_requests'][0]['allocations'],
                           dict), base=10),
    F('POST /allocations', 13,
      lambda v: ('POST', '/allocations',
                 post_alloc_body(v, {C2: {P1: {'VCPU': 1}}})), st(204)),
    F('parent/root uuid in provider body', 14,
      lambda v: ('GET', '/resource_providers/' + P2, None),
      lambda r: r.json.get('parent_provider_uuid') == P1 and
      r.json.get('root_provider_uuid') == P1),
    F('parent_provider_uuid accepted in POST', 14,
      lambda v: ('POST', '/resource_providers',
                 {'name': 'child', 'uuid': gen.PROV[5],
                  'parent_provider_uuid': P1}), st(200, 201)),
    F('in_tree on GET /resource_providers', 14,
      lambda v: ('GET', '/resource_providers?in_tree=' + P1, None), st(200)),
    F('last-modified and cache-control on GET', 15,
      lambda v: ('GET', '/resource_providers/' + P1, None),
      lambda r: 'Last-Modified' in r.headers and
      r.headers.get('Cache-Control') == 'no-cache'),
    F('last-modified on GET inventories', 15,
      lambda v: ('GET', '/resource_providers/%s/inventories' % P1, None),
      lambda r: 'Last-Modified' in r.headers and
      r.headers.get('Cache-Control') == 'no-cache'),
    F('limit on candidates', 16, lambda v: cand(v, '&limit=1'), st(200),
      base=10),
    F('required on candidates', 17, lambda v: cand(v, '&required=' + AVX),
      st(200), base=10),
    F('traits in provider_summaries', 17, cand,
      lambda r: 'traits' in first_summary(r), base=10),
    F('required on GET /resource_providers', 18,
      lambda v: ('GET', '/resource_providers?required=' + AVX, None),
      st(200)),
    F('generation in GET aggregates body', 19,
      lambda v: ('GET', '/resource_providers/%s/aggregates' % P1, None),
      lambda r: 'resource_provider_generation' in (r.json or {}), base=1),
    F('object body for PUT aggregates', 19,
      lambda v: ('PUT', '/resource_providers/%s/aggregates' % P1,
                 {'resource_provider_generation': 4, 'aggregates': [AGG]}),
      st(200), base=1),
    F('list body for PUT aggregates', 1,
      lambda v: ('PUT', '/resource_providers/%s/aggregates' % P1, [AGG]),
      st(200), last=18),
    F('POST /resource_providers returns 200 with body', 20,
      lambda v: ('POST', '/resource_providers',
                 {'name': 'newp', 'uuid': gen.PROV[5]}),
      lambda r: r.status == 200 and (r.json or {}).get('uuid') ==
      gen.PROV[5]),
    F('member_of on candidates', 21,
      lambda v: cand(v, '&member_of=' + AGG), st(200), base=10),
    F('forbidden traits on GET /resource_providers', 22,
      lambda v: ('GET', '/resource_providers?required=!' + SSD, None),
      st(200)),
    F('forbidden traits on candidates', 22,
      lambda v: cand(v, '&required=!' + SSD), st(200), base=10),
    F('error code in error bodies', 23,
      lambda v: ('GET', '/resource_providers/' + gen.GHOST_RP, None),
      lambda r: 'code' in r.json['errors'][0]),
    F('specific error code: 409 duplicate provider name', 23,
      lambda v: ('POST', '/resource_providers',
                 {'name': 'p1', 'uuid': gen.PROV[6]}),
      lambda r: r.status == 409 and 'code' in r.json['errors'][0]),
    F('specific error code: 409 generation conflict', 23,
      lambda v: ('PUT', '/resource_providers/%s/inventories' % P1,
                 {'resource_provider_generation': 999, 'inventories': {}}),
      lambda r: r.status == 409 and 'code' in r.json['errors'][0]),
    F('specific error code: 409 provider has children', 23,
      lambda v: ('DELETE', '/resource_providers/' + P1, None),
      lambda r: r.status == 409 and 'code' in r.json['errors'][0]),
    F('specific error code: 409 inventory in use', 23,
      lambda v: ('DELETE', '/resource_providers/%s/inventories/VCPU' % P1,
                 None),
      lambda r: r.status == 409 and 'code' in r.json['errors'][0]),
    F('repeated member_of', 24,
      lambda v: ('GET', '/resource_providers?member_of=%s&member_of=in:%s,%s'
                 % (AGG, AGG, gen.AGGS[1]), None), st(200), base=3),
    F('granular request groups', 25, lambda v: (
        'GET', '/allocation_candidates?resources1=VCPU:1&group_policy=none',
        None), st(200), base=10),
    F('reserved == total allowed', 26,
      lambda v: ('PUT', '/resource_providers/%s/inventories/CUSTOM_PV_A' % P2,
                 {'resource_provider_generation': 1, 'total': 4,
                  'reserved': 4}), st(200)),
    F('all classes in provider_summaries', 27, cand,
      lambda r: 'MEMORY_MB' in first_summary(r)['resources'], base=10),
    F('consumer_generation required in PUT allocations', 28,
      lambda v: ('PUT', '/allocations/' + C2, dict(
          alloc_body(min(v, 27), {P1: {'VCPU': 1}}, form='dict'),
          consumer_generation=None, **(
              {'consumer_type': 'INSTANCE'} if v >= 38 else {}))),
      st(204), base=12),
    F('PUT allocations without consumer_generation accepted', 12,
      lambda v: ('PUT', '/allocations/' + C2, dict(
          alloc_body(min(v, 27), {P1: {'VCPU': 1}}, form='dict'),
          **({'consumer_type': 'INSTANCE'} if v >= 38 else {}))),
      st(204), last=27),
    F('consumer_generation in GET /allocations/{c}', 28,
      lambda v: ('GET', '/allocations/' + C1, None),
      lambda r: 'consumer_generation' in r.json),
    F('consumer_generation in GET provider allocations', 28,
      lambda v: ('GET', '/resource_providers/%s/allocations' % P1, None),
      lambda r: 'consumer_generation' in r.json['allocations'][C1]),
    F('empty allocations accepted in PUT', 28,
      lambda v: ('PUT', '/allocations/' + C1,
                 alloc_body(v, {}, consumer_gen=1, form='dict')),
      st(204), base=12),
    F('parent/root uuid in provider_summaries', 29, cand,
      lambda r: 'root_provider_uuid' in first_summary(r), base=10),
    F('POST /reshaper', 30,
      lambda v: ('POST', '/reshaper', {
          'inventories': {P2: {'resource_provider_generation': 1,
                               'inventories': {'CUSTOM_PV_A': {'total': 9}}}},
          'allocations': {}}), st(204)),
    F('in_tree on candidates', 31, lambda v: cand(v, '&in_tree=' + P1),
      st(200), base=10),
    F('forbidden aggregates', 32,
      lambda v: ('GET', '/resource_providers?member_of=!' + gen.AGGS[1],
                 None), st(200), base=3),
    F('string request group suffixes', 33, lambda v: (
        'GET', '/allocation_candidates?resources_A=VCPU:1', None), st(200),
      base=10),
    F('mappings in allocation_requests', 34, cand,
      lambda r: 'mappings' in r.json['allocation_requests'][0], base=10),
    F('mappings accepted in PUT allocations', 34,
      lambda v: ('PUT', '/allocations/' + C2,
                 alloc_body(v, {P1: {'VCPU': 1}}, mappings={'': [P1]})),
      st(204), base=28),
    F('root_required', 35, lambda v: cand(v, '&root_required=' + AVX),
      st(200), base=10),
    F('same_subtree', 36, lambda v: (
        'GET', '/allocation_candidates?resources_A=VCPU:1&resources_B='
        'CUSTOM_PV_A:1&group_policy=none&same_subtree=_A,_B', None),
      st(200), base=33),
    F('re-parenting inside one tree via PUT provider', 37,
      lambda v: ('PUT', '/resource_providers/' + P4,
                 {'name': 'p4', 'parent_provider_uuid': P2}), st(200),
      base=14),
    F('re-parenting into another tree via PUT provider', 37,
      lambda v: ('PUT', '/resource_providers/' + P4,
                 {'name': 'p4', 'parent_provider_uuid': P3}), st(200),
      base=14),
    F('generation in the aggregates body of a provider still at generation 0',
      19, lambda v: ('GET', '/resource_providers/%s/aggregates' % P4, None),
      lambda r: r.status == 200 and
      r.json.get('resource_provider_generation') == 0, base=1),
    F('generation in the traits body of a provider still at generation 0', 6,
      lambda v: ('GET', '/resource_providers/%s/traits' % P4, None),
      lambda r: r.status == 200 and
      r.json.get('resource_provider_generation') == 0),
    F('generation in the inventories body of a provider at generation 0', 0,
      lambda v: ('GET', '/resource_providers/%s/inventories' % P4, None),
      lambda r: r.status == 200 and
      r.json.get('resource_provider_generation') == 0),
    F('un-parenting via PUT provider', 37,
      lambda v: ('PUT', '/resource_providers/' + P2,
                 {'name': 'p2', 'parent_provider_uuid': None}), st(200),
      base=14),
    F('consumer_type required in PUT allocations', 38,
      lambda v: ('PUT', '/allocations/' + C2, dict(
          alloc_body(min(v, 37), {P1: {'VCPU': 1}}),
          consumer_type='INSTANCE')), st(204), base=28),
    F('PUT allocations without consumer_type accepted', 28,
      lambda v: ('PUT', '/allocations/' + C2,
                 alloc_body(v, {P1: {'VCPU': 1}}, ctype=False)), st(204),
      last=37, base=28),
    F('consumer_type in GET /allocations/{c}', 38,
      lambda v: ('GET', '/allocations/' + C1, None),
      lambda r: r.json.get('consumer_type') == 'INSTANCE'),
    F('consumer_type "unknown" reported for an untyped consumer', 38,
      lambda v: ('GET', '/allocations/' + C3, None),
      lambda r: r.json.get('consumer_type') == 'unknown', base=12),
    F('untyped consumers grouped as "unknown" in GET /usages', 38,
      lambda v: ('GET', '/usages?project_id=proj-b', None),
      lambda r: r.json['usages'].get('unknown', {}).get(
          'consumer_count') == 1, base=9),
    F('consumer_type filter on GET /usages', 38,
      lambda v: ('GET', '/usages?project_id=proj-a&consumer_type=INSTANCE',
                 None), st(200), base=9),
    F('usages grouped by consumer type', 38,
      lambda v: ('GET', '/usages?project_id=proj-a', None),
      lambda r: 'INSTANCE' in r.json['usages'] and
      r.json['usages']['INSTANCE'].get('consumer_count') == 1, base=9),
    F('required=in: on GET /resource_providers', 39,
      lambda v: ('GET', '/resource_providers?required=in:%s,%s' % (AVX, SSD),
                 None), st(200), base=18),
    F('repeated required is ANDed', 39,
      lambda v: ('GET', '/resource_providers?required=%s&required=%s'
                 % (SSD, AVX), None),
      lambda r: r.status == 200 and r.json['resource_providers'] == [],
      base=18),
    F('string suffix on resourcesS', 33,
      lambda v: ('GET', '/allocation_candidates?resources_A=VCPU:1', None),
      st(200), base=25),
    F('string suffix on requiredS', 33,
      lambda v: ('GET', '/allocation_candidates?resources_A=VCPU:1'
                 '&required_A=' + AVX, None), st(200), base=25),
    F('string suffix on member_ofS', 33,
      lambda v: ('GET', '/allocation_candidates?resources_A=VCPU:1'
                 '&member_of_A=' + AGG, None), st(200), base=25),
    F('string suffix on in_treeS', 33,
      lambda v: ('GET', '/allocation_candidates?resources_A=VCPU:1'
                 '&in_tree_A=' + P1, None), st(200), base=25),
    # a suffixed filter whose group has no resources is refused at every
    # version (unknown parameter below 1.33, orphaned group from 1.33)
    F('string-suffixed in_tree without its group is never accepted', 40,
      lambda v: ('GET', '/allocation_candidates?resources=VCPU:1'
                 '&in_tree_A=' + P1, None), st(200), base=25),
    F('string-suffixed required without its group is never accepted', 40,
      lambda v: ('GET', '/allocation_candidates?resources=VCPU:1'
                 '&required_A=' + AVX, None), st(200), base=25),
    F('string-suffixed member_of without its group is never accepted', 40,
      lambda v: ('GET', '/allocation_candidates?resources=VCPU:1'
                 '&member_of_A=' + AGG, None), st(200), base=25),
    F('numbered in_treeN', 31,
      lambda v: ('GET', '/allocation_candidates?resources1=VCPU:1'
                 '&in_tree1=' + P1, None), st(200), base=25),
    F('required=in: on candidates', 39,
      lambda v: cand(v, '&required=in:%s,%s' % (AVX, SSD)), st(200),
      base=17),
    F('repeated required on candidates is ANDed', 39,
      lambda v: cand(v, '&required=%s&required=%s' % (SSD, AVX)),
      lambda r: r.status == 200 and r.json['allocation_requests'] == [],
      base=17),
    F('repeated requiredN on candidates is ANDed', 39,
      lambda v: ('GET', '/allocation_candidates?resources1=VCPU:1'
                 '&required1=%s&required1=%s' % (SSD, AVX), None),
      lambda r: r.status == 200 and r.json['allocation_requests'] == [],
      base=25),
    F('required1=in: on candidates', 39,
      lambda v: ('GET', '/allocation_candidates?resources1=VCPU:1'
                 '&required1=in:%s,%s' % (AVX, SSD), None), st(200),
      base=25),
]


def generated_header_rule(ctx, svc, record):
    import hypothesis
    from hypothesis import HealthCheck, Phase, given, settings, \
        strategies as hst
    from pv import bgen, engb
    from pv.dump import dump
    from pv.props import c15
    base = machine.base_snapshot(svc)
    stats = ctx.stats
    versions = ['1.%d' % i for i in range(40)] + ['latest', None]

    def body(data):
        desc = data.draw(bgen.states_mixed(max_providers=5))
        bgen.build_state(svc, desc, base)
        d = dump(svc.dbpath)
        snap = svc.snapshot()
        # (e) every generated query form is accepted from the first version
        # whose documented syntax can express it, and refused (400) by the
        # version just below
        for _ in range(ctx.pick(4, 10)):
            if data.draw(hst.booleans()):
                q = data.draw(bgen.queries(
                    d, data.draw(hst.sampled_from([39, 39, 36, 33, 25, 17]))))
                path, floor = '/allocation_candidates?', 10
            else:
                q = data.draw(bgen.rp_filters(
                    d, data.draw(hst.sampled_from([39, 32, 24, 22, 18, 14]))))
                path, floor = '/resource_providers?', 0
            mv = max(q.min_version(), floor)
            qs = q.render(mv)
            if not qs:
                continue
            for ver, want in ((mv, 200), (mv - 1, 400), (39, 200)):
                if ver < floor or (ver == mv - 1 and mv == floor):
                    continue
                svc.restore(snap)
                resp = svc.request('GET', path + qs, version='1.%d' % ver)
                stats.evaluations += 1
                stats.count('query gate: first version 1.%d' % mv)
                if ver == mv - 1:
                    stats.nontriv(stable_hash([path, qs, ver]))
                if resp.status == 200 and want == 200 and \
                        path.startswith('/allocation_candidates'):
                    # documented membership of provider_summaries on both
                    # sides of 1.29 (the request carries no limit)
                    for vv in sorted({ver, 28 if mv <= 28 else ver, 29}):
                        if vv < mv:
                            continue
                        svc.restore(snap)
                        r2 = svc.request('GET', path + qs,
                                         version='1.%d' % vv)
                        stats.evaluations += 1
                        if r2.status != 200:
                            continue
                        try:
                            engb.summary_membership(
                                d, r2.json, vv,
                                {'request': 'GET %s%s @1.%d' % (path, qs,
                                                                 vv)})
                        except Violation as v:
                            record(v, {'kind': 'gate', 'state': desc,
                                       'path': path + qs, 'version': vv,
                                       'want': 200, 'first': mv,
                                       'membership': True})
                if resp.status != want:
                    record(Violation(
                        {'clause': 'query-form-%s' % (
                            'accepted-below-its-first-version'
                            if want == 400 else
                            'refused-at-a-version-that-documents-it'),
                         'first_version': mv},
                        {'request': 'GET %s%s @1.%d' % (path, qs, ver),
                         'status': resp.status, 'want': want,
                         'detail': (resp.detail() or '')[-200:]}),
                        {'kind': 'gate', 'state': desc, 'path': path + qs,
                         'version': ver, 'want': want, 'first': mv})
        for _ in range(ctx.pick(3, 8)):
            req = c15.valid_request(data.draw, d)
            for ver in versions:
                svc.restore(snap)
                r = dict(req, v=ver)
                resp = machine.execute(svc, r)
                stats.evaluations += 1
                what = '%s %s @%s' % (req['m'], req['p'][:80], ver)
                try:
                    if resp.escaped or resp.status >= 500:
                        raise Violation(
                            {'clause': 'server-error-at-some-version',
                             'op': req['op']},
                            {'request': what, 'status': resp.status,
                             'body': resp.body[:200].decode('utf-8',
                                                            'replace')})
                    check_headers(resp, ver, what)
                    if ver == req['v']:
                        stats.nontriv(stable_hash([req['m'], req['p'],
                                                   req['b']]))
                except Violation as v:
                    record(v, {'kind': 'generated', 'state': desc,
                               'req': req, 'version': ver})

    test = given(hst.data())(body)
    test = hypothesis.seed(ctx.seed)(test)
    test = settings(max_examples=ctx.pick(2, 12), deadline=None,
                    database=None, suppress_health_check=list(HealthCheck),
                    report_multiple_bugs=False, print_blob=False,
                    phases=[Phase.generate],
                    verbosity=hypothesis.Verbosity.quiet)(test)
    test()


def run_worker(ctx):
    svc = machine.service()
    snap = build_fixture(svc)
    # a second custom class used by the rename probe
    svc.restore(snap)
    r = svc.request('PUT', '/resource_classes/CUSTOM_PV_T2', version='1.39')
    assert r.status == 201
    snap = svc.snapshot()
    stats = ctx.stats
    fails = {}

    def record(v, replay):
        sig = dict(v.signature)
        sig.setdefault('prop', ctx.prop)
        known = ctx.known.match(sig)
        if known is not None:
            stats.known[known['id']] = stats.known.get(known['id'], 0) + 1
            return
        key = json.dumps(sig, sort_keys=True, default=str)
        if key not in fails:
            fails[key] = {'signature': sig, 'detail': v.detail,
                          'replay': replay}

    cells = list(matrix_cells())
    for i, (route, path, m, ver, methods, rf) in enumerate(cells):
        if i % ctx.nworkers != ctx.idx:
            continue
        a = applied(ver)
        body = plausible_body(route, m, a if a is not None else 39)
        svc.restore(snap)
        resp = svc.request(m, path, version=ver, body=body, **auth(path))
        stats.evaluations += 1
        exp = expected(route, m, ver, methods, rf)
        what = '%s %s @%s' % (m, route, ver)
        replay = {'kind': 'cell', 'route': route, 'path': path, 'method': m,
                  'version': ver}
        try:
            if resp.escaped or resp.status >= 500:
                raise Violation({'clause': 'server-error', 'route': route,
                                 'method': m},
                                {'request': what, 'status': resp.status,
                                 'body': resp.json, 'escaped': resp.escaped})
            if exp == 'ok':
                if resp.status in (404, 405, 406):
                    raise Violation(
                        {'clause': 'existing-operation-answered-%d'
                         % resp.status, 'route': route, 'method': m},
                        {'request': what, 'body': resp.json})
            else:
                allowed = {406: (406,), '400/406': (400, 406), 404: (404,),
                           405: (405,), '404/405': (404, 405)}[exp]
                stats.nontriv(stable_hash([route, m, ver]))
                if resp.status not in allowed:
                    raise Violation(
                        {'clause': 'expected-%s-got-%d' % (exp, resp.status),
                         'route': route, 'method': m},
                        {'request': what, 'body': resp.json})
                if resp.status == 405 and m not in methods and \
                        route != '/':
                    allow = {x.strip() for x in
                             resp.headers.get('allow', '').split(',')}
                    if allow != set(methods):
                        raise Violation(
                            {'clause': 'allow-header-wrong', 'route': route},
                            {'request': what, 'allow': sorted(allow),
                             'want': sorted(methods)})
                if resp.status == 406 and a is None and m != 'HEAD':
                    d = (resp.json or {}).get('errors', [{}])[0]
                    if 'min_version' not in d or 'max_version' not in d:
                        raise Violation(
                            {'clause': '406-without-min-max-version'},
                            {'request': what, 'body': resp.json})
            check_headers(resp, ver, what)
        except Violation as v:
            record(v, replay)
    # (b) features x all versions
    jobs = [(f, v) for f in FEATURES for v in range(40)]
    for i, (f, v) in enumerate(jobs):
        if i % ctx.nworkers != ctx.idx or v < f['base']:
            continue
        svc.restore(snap)
        method, path, body = f['probe'](v)
        resp = svc.request(method, path, version='1.%d' % v, body=body,
                           **auth(path))
        stats.evaluations += 1
        want = f['first'] <= v <= f['last']
        try:
            got = bool(f['present'](resp))
        except Exception:
            got = False
        if v in (f['first'] - 1, f['first'], f['last'], f['last'] + 1):
            stats.nontriv(stable_hash([f['name'], v]))
            if len(stats.samples) < stats.MAX_SAMPLES and v == f['first']:
                stats.sample({'feature': f['name'], 'version': '1.%d' % v,
                              'request': '%s %s' % (method, path),
                              'status': resp.status, 'present': got})
        try:
            if resp.escaped or resp.status >= 500:
                raise Violation({'clause': 'server-error',
                                 'feature': f['name']},
                                {'version': v, 'status': resp.status,
                                 'body': resp.json})
            if got != want:
                raise Violation(
                    {'clause': 'feature-present-at-wrong-version' if got
                     else 'feature-absent-at-documented-version',
                     'feature': f['name']},
                    {'version': '1.%d' % v, 'first': f['first'],
                     'last': f['last'], 'status': resp.status,
                     'request': '%s %s' % (method, path),
                     'body': json.dumps(resp.json)[:300]})
            check_headers(resp, '1.%d' % v, '%s %s' % (method, path))
        except Violation as vv:
            record(vv, {'kind': 'feature', 'feature': f['name'],
                        'version': v})
    # (c) generated requests in generated states, replayed at every version:
    # never a 5xx, and every response to an accepted version names the
    # applied version and varies on the header
    generated_header_rule(ctx, svc, record)
    stats.violations.extend(fails.values())
    if ctx.idx == 0:
        stats.extra['matrix_cells'] = len(cells)
        stats.extra['matrix_and_feature_table_enumerated_completely'] = True
        stats.extra['feature_probes'] = len(
            [1 for f, v in jobs if v >= f['base']])
        stats.extra['features'] = len(FEATURES)


def replay(ctx, data):
    svc = machine.service()
    snap = build_fixture(svc)
    svc.restore(snap)
    svc.request('PUT', '/resource_classes/CUSTOM_PV_T2', version='1.39')
    snap = svc.snapshot()
    svc.restore(snap)
    if data['kind'] == 'cell':
        row = [r for r in ROUTES if r[0] == data['route']][0]
        a = applied(data['version'])
        body = plausible_body(row[0], data['method'],
                              a if a is not None else 39)
        resp = svc.request(data['method'], row[1], version=data['version'],
                           body=body)
        print('status', resp.status, 'headers', resp.headers)
        print('body', resp.body[:400])
        exp = expected(row[0], data['method'], data['version'], row[2],
                       row[3])
        print('expected', exp)
        bad = (exp == 'ok' and resp.status in (404, 405, 406)) or \
            (exp != 'ok' and str(resp.status) not in str(exp))
        try:
            check_headers(resp, data['version'], 'replay')
        except Violation as v:
            return [{'signature': v.signature, 'detail': v.detail}]
        return [{'signature': {'clause': 'replayed-cell'}, 'detail': None}] \
            if bad else []
    if data.get('kind') == 'gate':
        from pv import bgen
        base = machine.base_snapshot(svc)
        bgen.build_state(svc, data['state'], base)
        resp = svc.request('GET', data['path'],
                           version='1.%d' % data['version'])
        if data.get('membership') and resp.status == 200:
            from pv import engb
            from pv.dump import dump
            try:
                engb.summary_membership(dump(svc.dbpath), resp.json,
                                        data['version'], {})
            except Violation as v:
                return [{'signature': v.signature, 'detail': v.detail}]
            return []
        if resp.status != data['want']:
            return [{'signature': {'clause': 'query-form-gate',
                                   'first_version': data['first']},
                     'detail': {'status': resp.status}}]
        return []
    if data.get('kind') == 'generated':
        from pv import bgen
        base = machine.base_snapshot(svc)
        bgen.build_state(svc, data['state'], base)
        r = dict(data['req'], v=data['version'])
        resp = machine.execute(svc, r)
        what = '%s %s @%s' % (r['m'], r['p'][:80], data['version'])
        try:
            if resp.escaped or resp.status >= 500:
                raise Violation({'clause': 'server-error-at-some-version',
                                 'op': r['op']}, {'request': what,
                                                  'status': resp.status})
            check_headers(resp, data['version'], what)
        except Violation as v:
            return [{'signature': v.signature, 'detail': v.detail}]
        return []
    f = [x for x in FEATURES if x['name'] == data['feature']][0]
    v = data['version']
    method, path, body = f['probe'](v)
    resp = svc.request(method, path, version='1.%d' % v, body=body)
    print('status', resp.status, 'body', resp.body[:400])
    got = bool(f['present'](resp))
    want = f['first'] <= v <= f['last']
    return [{'signature': {'clause': 'replayed-feature'},
             'detail': {'present': got, 'want': want}}] if got != want else []
