"""C09 - the provider hierarchy is always a forest with correct root pointers."""
from pv import machine, oracles

LEVEL = 'exploration'
RULE = ('Hypothesis rule-based state machine: histories of POST/PUT/DELETE '
        '/resource_providers over a pool of 8 provider UUIDs at microversions '
        'on both sides of 1.14 and 1.37 (create under parent, first parenting, '
        're-parent subtree, un-parent, loop attempts, missing parent, rename, '
        'delete leaf/inner/root), requests built from the raw dump of the '
        'current state; after every request the forest invariant is evaluated '
        'on the raw resource_providers rows and GET provider / GET ?in_tree '
        'views are compared with the computed forest. Non-trivial = a '
        'successful move/detach of a subtree with >= 2 members, or a rejected '
        'structural request (missing parent, loop, delete with children, '
        'move before 1.37); distinct = distinct request-history prefix.')
ASSUMPTIONS = ['SQLite file database; requests issued serially',
               'oracle reads raw rows with sqlite3, shares no code with placement']


def nontrivial(m, req, resp, before, after):
    if req['op'] == 'update_rp':
        if resp.ok and any(l in ('subtree-2', 'subtree-3')
                           for l in req['labels']) and \
                before.providers[req['target']]['parent'] != \
                after.providers[req['target']]['parent']:
            return True
        if not resp.ok and any(l in ('loop', 'self', 'missing-parent',
                                     'reparent', 'unparent')
                               for l in req['labels']):
            return True
    if req['op'] == 'create_rp' and not resp.ok and \
            any(l in ('missing-parent', 'self-parent') for l in req['labels']):
        return True
    if req['op'] == 'delete_rp' and 'has-children' in req['labels']:
        return True
    return False


PROFILE = machine.Profile(
    'c09', 'C09',
    ops=[(3, 'create_rp'), (1, 'create_root'), (9, 'update_rp'),
         (3, 'delete_rp')],
    oracles=[oracles.c09_oracle], nontrivial=nontrivial, steps=40,
    boundaries=(14, 37), defect_rate=2, base='pristine',
    )


def _after(m, draw):
    try:
        oracles.c09_api_view(m, draw)
    except machine.Violation as v:
        m.on_violation(v, {'op': v.signature.get('op', 'GET'), 'm': 'GET',
                           'p': '', 'v': None, 'b': None, 'labels': []},
                       _FakeResp())


class _FakeResp(object):
    status = 200


PROFILE.after_step = _after


def run_worker(ctx):
    machine.run_machine(ctx, PROFILE, examples=ctx.pick(40, 500))


def replay(ctx, data):
    return machine.replay_machine(ctx, PROFILE, data)
