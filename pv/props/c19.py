"""C19 - standard traits/classes always present and immutable; custom ones
namespaced."""
import re
from urllib.parse import quote

import os_resource_classes as orc
import os_traits
from hypothesis import strategies as st

from pv import gen, machine
from pv.dump import dump
from pv.oracles import fail, unchanged, vt
from pv.props import common as C

RULE = ('Hypothesis rule-based state machine. Every history starts from a '
        'generated database (schema only / fully synchronised / partially '
        'synchronised: a random subset of standard trait and class rows '
        'removed and custom rows inserted with raw SQL) followed by a start-up '
        'synchronisation, then mixes repeated start-ups with POST/PUT/DELETE '
        '/resource_classes on both sides of 1.7 (rename below it), PUT/DELETE '
        '/traits, inventories and trait associations that put names in use. '
        'Names are drawn from: valid custom (incl. exactly 255 characters), '
        'existing, standard, lower case, missing prefix, 256 characters, '
        'illegal characters (space, dash, dot, quote, backslash, percent, '
        'control characters incl. trailing newline, non-ASCII letters and '
        'digits, JSON metacharacters) and CUSTOM_ + random text. Oracle (raw '
        'rows, os_traits / os_resource_classes libraries): after every '
        'start-up all library traits and classes exist, standard classes at '
        'their index, custom rows untouched, and an immediate second start-up '
        'changes nothing; no request changes or removes a standard row, and '
        'DELETE/rename of a standard name is 400; every row added by an API '
        'request has a name matching CUSTOM_[A-Z0-9_]+ in full, <= 255 long; '
        'new class ids are >= 10000 and not present before; creating an '
        'existing custom name is 204 (PUT) / 409 (POST), creating a new '
        'well-formed one is 201; names are never duplicated. Second phase: '
        '2-3 concurrent creations of one new name (PUT/POST class, PUT trait) '
        'under every atomic insertion, sampled splits and free schedules of '
        'engine C: exactly one 201, the others 204/409, one row, class id >= '
        '10000 and unique. Non-trivial = a creation after a deletion or after a '
        'start-up over existing custom rows, a refused request on a standard '
        'name, a request with an ill-formed name, or a start-up that had rows '
        'to add; distinct = distinct history prefix.')

STD_TRAITS = list(os_traits.get_traits())
STD_TRAIT_SET = set(STD_TRAITS)
STD_CLASSES = list(orc.STANDARDS)
STD_CLASS_SET = set(STD_CLASSES)
VALID = re.compile(r'\ACUSTOM_[A-Z0-9_]+\Z')
P1 = gen.PROV[0]

GOOD = ['CUSTOM_PV_A', 'CUSTOM_PV_B', 'CUSTOM_PV_C', 'CUSTOM_PV_D',
        'CUSTOM_9', 'CUSTOM__', 'CUSTOM_' + 'Z' * 248]
BAD = ['CUSTOM_' + 'Y' * 249, 'CUSTOM_', 'custom_pv_a', 'CUSTOM_lower',
       'PV_X', 'Custom_PV_A', 'CUSTOM_A-B', 'CUSTOM_A B', 'CUSTOM_A.B',
       'CUSTOM_\u00c9', 'CUSTOM_NL\n', '\nCUSTOM_NL', 'CUSTOM_CR\r',
       'CUSTOM_Q", "name": "CUSTOM_Z', 'CUSTOM_BS\\', 'CUSTOM_A;B',
       'CUSTOM_A%41', 'CUSTOM_\u0661', 'CUSTOM_\uff21', 'CUSTOM_TAB\t',
       'CUSTOM_A\u2028', ' CUSTOM_A', 'CUSTOM_A ', 'CUSTOM_A"', "CUSTOM_A'",
       'CUSTOM_{A}', 'CUSTOM_A\x0b', 'CUSTOM_A\x1f', 'CUSTOM_A\x85']
PRE_CLASSES = ['CUSTOM_PRE_A', 'CUSTOM_PRE_B', 'CUSTOM_PRE_C']
PRE_TRAITS = ['CUSTOM_PRE_T', 'CUSTOM_PRE_U']
STAMP = '2020-01-01 00:00:00.000000'
RANDOM_TAIL = st.text(
    alphabet=st.sampled_from(list('ABZ09_az-. \n\r\t"\\%/') +
                             ['\u00c9', '\u0661', '\x00', '\x7f']),
    min_size=1, max_size=5)


def draw_name(draw, d, kind, existing_bias=3):
    """kind: 'class' | 'trait'."""
    have = sorted(n for n in (d.classes if kind == 'class' else d.traits)
                  if n.startswith('CUSTOM'))
    std = STD_CLASSES if kind == 'class' else \
        ['HW_CPU_X86_AVX2', 'STORAGE_DISK_SSD', STD_TRAITS[0], STD_TRAITS[-1]]
    c = draw(st.integers(0, 11))
    if c < existing_bias and have:
        return draw(st.sampled_from(have)), 'existing'
    if c < 6:
        return draw(st.sampled_from(GOOD)), 'good'
    if c < 8:
        return draw(st.sampled_from(std)), 'standard'
    if c < 11:
        return draw(st.sampled_from(BAD)), 'bad'
    return 'CUSTOM_' + draw(RANDOM_TAIL), 'random'


def _labels(d, kind, name, cat):
    table = d.classes if kind == 'class' else d.traits
    labels = [cat]
    if name in table:
        labels.append('exists')
    if not VALID.match(name) or len(name) > 255:
        if name not in (STD_CLASS_SET if kind == 'class' else STD_TRAIT_SET):
            labels.append('ill-formed')
    return labels


def b_put_class(draw, d, prof):
    v = gen.biased_version(draw, 7, 39, (7,))
    name, cat = draw_name(draw, d, 'class')
    return gen.R('PUT', '/resource_classes/' + quote(name, safe=''), v, None,
                 'put_class', _labels(d, 'class', name, cat), name=name)


def b_post_class(draw, d, prof):
    v = gen.biased_version(draw, 2, 39, (2, 7))
    name, cat = draw_name(draw, d, 'class')
    return gen.R('POST', '/resource_classes', v, {'name': name},
                 'post_class', _labels(d, 'class', name, cat), name=name)


def b_rename_class(draw, d, prof):
    v = (1, draw(st.integers(2, 6)))
    old, cat = draw_name(draw, d, 'class', existing_bias=6)
    new, cat2 = draw_name(draw, d, 'class', existing_bias=1)
    labels = ['from-' + cat, 'to-' + cat2]
    if old in STD_CLASS_SET:
        labels.append('rename-standard')
    if not VALID.match(new) or len(new) > 255:
        labels.append('ill-formed')
    return gen.R('PUT', '/resource_classes/' + quote(old, safe=''), v,
                 {'name': new}, 'rename_class', labels, name=new, old=old)


def b_delete_class(draw, d, prof):
    v = gen.biased_version(draw, 2, 39, (2,))
    name, cat = draw_name(draw, d, 'class', existing_bias=6)
    labels = _labels(d, 'class', name, cat)
    have = [(i, n) for n, i in d.classes.items()]
    if have and name == max(have)[1] and name.startswith('CUSTOM'):
        labels.append('highest-id')
    return gen.R('DELETE', '/resource_classes/' + quote(name, safe=''), v,
                 None, 'delete_class', labels, name=name)


def b_put_trait(draw, d, prof):
    v = gen.biased_version(draw, 6, 39, (6,))
    name, cat = draw_name(draw, d, 'trait')
    return gen.R('PUT', '/traits/' + quote(name, safe=''), v, None,
                 'put_trait', _labels(d, 'trait', name, cat), name=name)


def b_delete_trait(draw, d, prof):
    v = gen.biased_version(draw, 6, 39, (6,))
    name, cat = draw_name(draw, d, 'trait', existing_bias=6)
    return gen.R('DELETE', '/traits/' + quote(name, safe=''), v, None,
                 'delete_trait', _labels(d, 'trait', name, cat), name=name)


def b_restart(draw, d, prof):
    labels = []
    if any(n.startswith('CUSTOM') for n in d.classes) or \
            any(n.startswith('CUSTOM') for n in d.traits):
        labels.append('custom-rows-present')
    return gen.R('RESTART', 'update_database', None, None, 'restart', labels)


def b_use_class(draw, d, prof):
    """Give the provider an inventory of some existing classes (puts custom
    classes in use; the request itself is judged by other properties)."""
    if P1 not in d.providers:
        return gen.R('POST', '/resource_providers', '1.39',
                     {'name': 'p1', 'uuid': P1}, 'create_rp', [])
    have = sorted(d.classes)
    names = draw(st.lists(st.sampled_from(have), max_size=3, unique=True)) \
        if have else []
    body = {'resource_provider_generation': d.providers[P1]['generation'],
            'inventories': {n: {'total': 4} for n in names}}
    return gen.R('PUT', '/resource_providers/%s/inventories' % P1, '1.39',
                 body, 'use_class', [], target=P1)


def b_use_trait(draw, d, prof):
    if P1 not in d.providers:
        return gen.R('POST', '/resource_providers', '1.39',
                     {'name': 'p1', 'uuid': P1}, 'create_rp', [])
    have = sorted(n for n in d.traits if n.startswith('CUSTOM')) + \
        ['HW_CPU_X86_AVX2']
    names = draw(st.lists(st.sampled_from(have), max_size=3, unique=True))
    body = {'resource_provider_generation': d.providers[P1]['generation'],
            'traits': names}
    return gen.R('PUT', '/resource_providers/%s/traits' % P1, '1.39', body,
                 'use_trait', [], target=P1)


BUILDERS = {
    'put_class': b_put_class, 'post_class': b_post_class,
    'rename_class': b_rename_class, 'delete_class': b_delete_class,
    'put_trait': b_put_trait, 'delete_trait': b_delete_trait,
    'restart': b_restart, 'use_class': b_use_class, 'use_trait': b_use_trait,
}


# ------------------------------------------------------------------ init
def init(m, draw):
    m.svc.conf.clear_override('sync_on_startup', group='placement_database')
    base = draw(st.sampled_from(['empty', 'pristine', 'partial', 'partial',
                                 'alembic', 'alembic-partial']))
    m.memo['base'] = base
    m.memo['deleted'] = False
    m.memo['synced'] = False
    if base.startswith('alembic'):
        # a schema managed by the migrations, and the documented option that
        # runs them at every start-up
        m.config['placement_database.sync_on_startup'] = True
        machine.apply_config(m)
        m.do(gen.R('RESTORE', 'snapshot', None, 'alembic', 'restore',
                   [base]), count=False)
        if base == 'alembic-partial':
            m.do(b_restart(draw, m.d, None))
            base = 'partial'
    else:
        m.do(gen.R('RESTORE', 'snapshot', None,
                   'empty' if base == 'empty' else 'pristine', 'restore',
                   [base]), count=False)
    if base == 'partial':
        stmts = []
        gone_t = draw(st.lists(st.sampled_from(STD_TRAITS), max_size=6,
                               unique=True))
        if draw(st.integers(0, 3)) == 0:
            # the database of an older release: a whole suffix is missing
            gone_t = sorted(set(gone_t) | set(STD_TRAITS[-draw(
                st.integers(1, 40)):]))
        for n in gone_t:
            stmts.append(['DELETE FROM traits WHERE name = ?', [n]])
        gone_c = draw(st.lists(st.sampled_from(STD_CLASSES), max_size=4,
                               unique=True))
        if draw(st.integers(0, 3)) == 0:
            gone_c = sorted(set(gone_c) | set(STD_CLASSES[-draw(
                st.integers(1, 6)):]))
        for n in gone_c:
            stmts.append(['DELETE FROM resource_classes WHERE name = ?', [n]])
        pre_c = draw(st.lists(st.sampled_from(PRE_CLASSES), max_size=3,
                              unique=True))
        ids = draw(st.lists(st.integers(10000, 10006), min_size=len(pre_c),
                            max_size=len(pre_c), unique=True))
        for n, i in zip(pre_c, ids):
            stmts.append(['INSERT INTO resource_classes (id, name, '
                          'created_at) VALUES (?, ?, ?)', [i, n, STAMP]])
        for n in draw(st.lists(st.sampled_from(PRE_TRAITS), max_size=2,
                               unique=True)):
            stmts.append(['INSERT INTO traits (name, created_at) '
                          'VALUES (?, ?)', [n, STAMP]])
        if stmts:
            m.do(gen.R('SQL', 'prepare', None, stmts, 'sql',
                       ['std-traits-removed-%d' % min(len(gone_t), 7),
                        'std-classes-removed-%d' % len(gone_c)]),
                 count=False)
    m.do(b_restart(draw, m.d, None))


# ---------------------------------------------------------------- oracle
def _std_part(table, std):
    return {n: i for n, i in table.items() if n in std}


def _custom_part(table, std):
    return {n: i for n, i in table.items() if n not in std}


def check_synced(after, clause):
    miss = sorted(STD_TRAIT_SET - set(after.traits))
    if miss:
        fail(clause + ':standard-trait-missing',
             {'missing': miss[:5], 'count': len(miss)})
    for idx, n in enumerate(STD_CLASSES):
        if after.classes.get(n) != idx:
            fail(clause + ':standard-class-missing-or-wrong-id',
                 {'class': n, 'want': idx, 'got': after.classes.get(n)})


def c19_oracle(m, req, resp, before, after):
    op = req['op']
    stats = m.rec.ctx.stats
    if op in ('restore', 'sql'):
        m.memo['synced'] = False
        return
    # never duplicates
    if after.class_rows != len(after.classes) or \
            after.trait_rows != len(after.traits):
        fail('duplicate-name-rows', {'class_rows': after.class_rows,
                                     'classes': len(after.classes),
                                     'trait_rows': after.trait_rows,
                                     'traits': len(after.traits)})
    ids = sorted(after.classes.values())
    if len(set(ids)) != len(ids):
        fail('duplicate-class-id')
    if op == 'restart':
        if resp.status != 200:
            fail('startup-sync-failed', {'error': resp.escaped})
        check_synced(after, 'after-startup')
        # rows that existed are untouched
        for kind, b, a in (('trait', before.traits, after.traits),
                           ('class', before.classes, after.classes)):
            for n, i in b.items():
                if a.get(n) != i:
                    fail('startup-sync-changed-existing-row',
                         {'kind': kind, 'name': n, 'before': i,
                          'after': a.get(n)})
        extra_t = set(after.traits) - set(before.traits) - STD_TRAIT_SET
        extra_c = set(after.classes) - set(before.classes) - STD_CLASS_SET
        if extra_t or extra_c:
            fail('startup-sync-added-non-library-name',
                 {'traits': sorted(extra_t)[:5], 'classes': sorted(extra_c)})
        # idempotence: an immediate second start-up changes nothing
        r2 = m.svc.restart()
        again = dump(m.svc.dbpath)
        stats.evaluations += 1
        if r2.status != 200:
            fail('second-startup-sync-failed', {'error': r2.escaped})
        if again.traits != after.traits or again.classes != after.classes \
                or again.trait_rows != after.trait_rows \
                or again.class_rows != after.class_rows:
            fail('startup-sync-not-idempotent',
                 {'traits': sorted(set(again.traits.items()) ^
                                   set(after.traits.items()))[:6],
                  'classes': sorted(set(again.classes.items()) ^
                                    set(after.classes.items()))[:6]})
        unchanged(after, again, 'second-startup-changed-state')
        m.memo['synced'] = True
        return
    if not m.memo.get('synced'):
        return
    # ---- an API request ------------------------------------------------
    # standard rows are immutable
    for kind, b, a, std in (
            ('trait', before.traits, after.traits, STD_TRAIT_SET),
            ('class', before.classes, after.classes, STD_CLASS_SET)):
        sb, sa = _std_part(b, std), _std_part(a, std)
        if sb != sa:
            chg = sorted(set(sb.items()) ^ set(sa.items()))
            fail('standard-%s-removed-or-changed' % kind, {'rows': chg[:6]},
                 kind=kind)
    check_synced(after, 'after-request')
    # names and ids of rows that appeared
    for n in set(after.traits) - set(before.traits):
        if not VALID.match(n) or len(n) > 255:
            fail('ill-formed-trait-name-created', {'name': n})
    for n in set(after.classes) - set(before.classes):
        if not VALID.match(n) or len(n) > 255:
            fail('ill-formed-class-name-created', {'name': n})
    old_ids = set(before.classes.values())
    for n, i in after.classes.items():
        if n in STD_CLASS_SET:
            continue
        if i < 10000:
            fail('custom-class-id-below-10000', {'name': n, 'id': i})
        if before.classes.get(n) != i and op != 'rename_class' \
                and i in old_ids:
            fail('custom-class-id-collides-with-existing',
                 {'name': n, 'id': i})
    if op == 'rename_class' and resp.ok:
        old, new = req['old'], req['name']
        if after.classes.get(new) != before.classes.get(old):
            fail('rename-changed-identifier',
                 {'old': before.classes.get(old),
                  'new': after.classes.get(new)})
    name = req.get('name')
    v = vt(req)
    if op in ('delete_class', 'delete_trait'):
        std = STD_CLASS_SET if op == 'delete_class' else STD_TRAIT_SET
        table = before.classes if op == 'delete_class' else before.traits
        if name in std and name in table:
            if resp.status != 400:
                fail('delete-standard-not-400', {'status': resp.status,
                                                 'name': name})
            unchanged(before, after, 'refused-delete-changed-state')
    elif op == 'rename_class':
        if req['old'] in STD_CLASS_SET:
            if resp.status != 400:
                fail('rename-standard-not-400', {'status': resp.status,
                                                 'name': req['old']})
            unchanged(before, after, 'refused-rename-changed-state')
        elif name in before.classes and name != req['old'] \
                and req['old'] in before.classes:
            if resp.ok:
                fail('rename-onto-existing-name-accepted',
                     {'status': resp.status})
            unchanged(before, after, 'refused-rename-changed-state')
    elif op in ('put_class', 'post_class', 'put_trait'):
        table = before.traits if op == 'put_trait' else before.classes
        if name not in table and VALID.match(name) and len(name) <= 255 \
                and '/' not in name:
            # a new well-formed custom name is created (API reference: 201)
            # and gets an identifier of its own, whatever was created and
            # deleted before
            after_t = after.traits if op == 'put_trait' else after.classes
            if resp.status != 201 or name not in after_t:
                fail('valid-new-name-not-created',
                     {'status': resp.status, 'name': name,
                      'detail': (resp.detail() or '')[-200:]}, op_kind=op)
        if name in table:
            custom = bool(VALID.match(name))
            if op == 'post_class':
                want = (409,) if custom else (409, 400)
            else:
                want = (204,) if custom else (204, 400)
            if resp.status not in want:
                fail('create-existing-name-wrong-status',
                     {'status': resp.status, 'want': list(want),
                      'name': name})
            unchanged(before, after, 'create-existing-name-changed-state')
    if not resp.ok and op in BUILDERS and op not in ('use_class',
                                                     'use_trait'):
        unchanged(before, after, 'refused-request-changed-state')


def nontrivial(m, req, resp, before, after):
    op = req['op']
    labels = req['labels']
    if op in ('delete_class', 'delete_trait') and resp.ok:
        m.memo['deleted'] = True
    if op == 'restart':
        if 'custom-rows-present' in labels:
            m.memo['restart_over_custom'] = True
        return (len(after.traits) > len(before.traits) or
                len(after.classes) > len(before.classes) or
                'custom-rows-present' in labels)
    if op in ('put_class', 'post_class', 'put_trait', 'rename_class'):
        if resp.ok and resp.status != 204 and (
                m.memo.get('deleted') or m.memo.get('restart_over_custom')):
            return True
    if 'ill-formed' in labels or 'rename-standard' in labels:
        return True
    if 'standard' in labels and not resp.ok:
        return True
    return False


PROFILE = machine.Profile(
    'c19', 'C19',
    ops=[(5, 'put_class'), (5, 'post_class'), (3, 'rename_class'),
         (4, 'delete_class'), (5, 'put_trait'), (3, 'delete_trait'),
         (3, 'restart'), (2, 'use_class'), (2, 'use_trait')],
    oracles=[c19_oracle], nontrivial=nontrivial, steps=30, base='pristine',
    init=init, builders=BUILDERS)

ASSUMPTIONS = C.ASSUMPTIONS[:2] + [
    'a start-up is modelled as deploy.update_database() with the per-process '
    '"already synchronised" flags reset (what a new worker process does); '
    'partially synchronised databases are produced with raw SQL',
    'the standard names are taken from the installed os_traits / '
    'os_resource_classes libraries']

C.standard_module(globals(), 'C19', PROFILE, 25, 400)


# ------------------------------------------------------------------ races
# "creating an existing name is idempotent (204) or a 409, never a duplicate"
# also when the name came into existence a moment ago through a request
# still in flight: 2-3 concurrent creations of one new name (PUT/POST
# /resource_classes, PUT /traits), scheduled at transaction granularity by
# engine C.  Oracle: exactly one racer answers 201 (it created the row), every
# other one answers 204 (PUT) or 409 (POST), there is one row of that name
# afterwards, a class id >= 10000 that no other class has.
from pv import cgen as _cgen, engc as _engc   # noqa: E402
from pv.runner import Violation as _Violation  # noqa: E402

RACE_NAMES = ['CUSTOM_PV_RACE', 'CUSTOM_PV_RACE_2', 'CUSTOM_A']


def name_race_case(draw, d):
    kind = draw(st.sampled_from(['class', 'class', 'trait']))
    table = d.classes if kind == 'class' else d.traits
    free = [n for n in RACE_NAMES if n not in table]
    if not free:
        return None
    name = draw(st.sampled_from(free))
    n = draw(st.sampled_from([2, 2, 3]))
    reqs = {}
    for r in 'ABC'[:n]:
        if kind == 'trait':
            v = (1, draw(st.sampled_from([6, 20, 39])))
            reqs[r] = gen.R('PUT', '/traits/' + name, v, None, 'put_trait',
                            ['race'], name=name)
        elif draw(st.booleans()):
            v = (1, draw(st.sampled_from([7, 20, 39])))
            reqs[r] = gen.R('PUT', '/resource_classes/' + name, v, None,
                            'put_class', ['race'], name=name)
        else:
            v = (1, draw(st.sampled_from([2, 7, 39])))
            reqs[r] = gen.R('POST', '/resource_classes', v, {'name': name},
                            'post_class', ['race'], name=name)
    return reqs


def race_oracle(ctx, svc, snap, start, reqs, race, schedule):
    _engc.no_server_error(reqs, race)
    name = reqs['A']['name']
    kind = 'trait' if reqs['A']['op'] == 'put_trait' else 'class'
    st_ = {n: race.responses[n].status for n in sorted(reqs)}
    created = [n for n, s in st_.items() if s == 201]
    detail = {'name': name, 'statuses': st_}
    if len(created) != 1:
        raise _Violation({'clause': 'concurrent-creation-not-exactly-one-201',
                          'kind': kind, 'created': len(created)}, detail)
    for n, s in st_.items():
        if n in created:
            continue
        want = (409,) if reqs[n]['op'] == 'post_class' else (204, 409)
        if s not in want:
            raise _Violation({'clause': 'create-existing-name-wrong-status-'
                                        'under-race', 'kind': kind,
                              'status': s}, detail)
    final = race.final
    table = final.classes if kind == 'class' else final.traits
    rows = final.class_rows if kind == 'class' else final.trait_rows
    if name not in table or rows != len(table):
        raise _Violation({'clause': 'duplicate-or-missing-row-after-race',
                          'kind': kind}, dict(detail, rows=rows))
    if kind == 'class':
        ids = sorted(final.classes.values())
        if final.classes[name] < 10000 or len(set(ids)) != len(ids):
            raise _Violation({'clause': 'custom-class-id-after-race'},
                             dict(detail, id=final.classes[name]))


_run_machine = run_worker      # noqa: F821
_replay_machine = replay       # noqa: F821


def run_worker(ctx):
    _run_machine(ctx)
    _engc.run_cases(ctx, name_race_case, race_oracle,
                    examples=ctx.pick(2, 30), free=3, splits=6,
                    max_providers=2)


def replay(ctx, data):
    if 'reqs' in data:
        return _engc.replay(ctx, race_oracle, data)
    return _replay_machine(ctx, data)
