"""C20 - limit and randomisation only select from the full candidate set."""
import random

from hypothesis import strategies as st

from pv import acref, bgen, engb
from pv.props import common as C
from pv.runner import Violation, stable_hash

LEVEL = 'exploration'
ASSUMPTIONS = C.ASSUMPTIONS + [
    'the limited results are compared with placement\'s own unlimited result '
    'for the same state and query (whether that set is right is C03)',
    'Python\'s random module is seeded by the harness before each request so '
    'that a failing case replays']
RULE = ('Hypothesis-generated (state, query, microversion >= 1.16) as for C03; '
        'for every case with M >= 1 unlimited results: every limit N in '
        '1..M+1 (capped at 10 values chosen by Hypothesis), both values of '
        '[placement]randomize_allocation_candidates (toggled on the live '
        'config), several random seeds. Oracle: len == min(N, M); entries '
        'pairwise distinct (as a sub-multiset below 1.34 where mappings are '
        'hidden); each entry belongs to the unlimited result; every provider '
        'named has a correct summary; randomisation off => two identical '
        'requests give the identical ordered list and the limited list is a '
        'prefix-independent subset; on => unlimited result is a permutation of '
        'the same set, limited one a subset of size min(N, M). Non-trivial = '
        'M >= 3 and 1 <= N < M; distinct = distinct (state, query, N, '
        'randomize).')


def get(svc, qs, version, limit=None):
    path = '/allocation_candidates?' + qs
    if limit is not None:
        path += '&limit=%d' % limit
    return svc.request('GET', path, version='1.%d' % version)


def multiset(items):
    cnt = {}
    for x in items:
        cnt[x] = cnt.get(x, 0) + 1
    return cnt


def check(ctx, svc, d, q, version, qs, desc, limits=None, seeds=(1, 2),
          draw=None):
    stats = ctx.stats
    case = {'query': q.to_json(), 'version': version, 'qs': qs}
    conf = svc.conf
    conf.set_override('randomize_allocation_candidates', False,
                      group='placement')
    try:
        r0 = get(svc, qs, version)
        if r0.status != 200:
            stats.excluded['status %d' % r0.status] = \
                stats.excluded.get('status %d' % r0.status, 0) + 1
            return
        full = engb.canon_response(r0.json, version)
        M = len(full)
        stats.count('M %s' % ('0' if M == 0 else '1-2' if M < 3 else '3+'))
        if M == 0:
            stats.evaluations += 1
            return
        full_ms = multiset(full)
        requested = set()
        for g in q.groups.values():
            requested |= set(g.resources)
        # randomisation off: identical ordered list on repetition
        r1 = get(svc, qs, version)
        stats.evaluations += 1
        if engb.canon_response(r1.json, version) != full:
            raise Violation({'clause': 'unrandomised-order-not-stable'},
                            {'case': case})
        if limits is None:
            limits = list(range(1, M + 2))
            if len(limits) > 10 and draw is not None:
                limits = sorted(draw(st.lists(
                    st.sampled_from(limits), min_size=10, max_size=10,
                    unique=True)))
        case['limits'] = limits
        for randomize in (False, True):
            conf.set_override('randomize_allocation_candidates', randomize,
                              group='placement')
            for N in limits + [None]:
                for sd in (seeds if randomize else seeds[:1]):
                    random.seed(sd)
                    r = get(svc, qs, version, N)
                    stats.evaluations += 1
                    ctxinfo = {'case': case, 'limit': N,
                               'randomize': randomize, 'seed': sd, 'M': M}
                    if r.status != 200:
                        raise Violation({'clause': 'limited-request-failed',
                                         'status': r.status}, ctxinfo)
                    got = engb.canon_response(r.json, version)
                    want_len = M if N is None else min(N, M)
                    if len(got) != want_len:
                        raise Violation({'clause': 'wrong-number-of-entries'},
                                        dict(ctxinfo, got=len(got),
                                             want=want_len))
                    got_ms = multiset(got)
                    for x, n in got_ms.items():
                        if n > full_ms.get(x, 0):
                            clause = ('entry-not-in-unlimited-result'
                                      if x not in full_ms
                                      else 'duplicate-entry')
                            raise Violation({'clause': clause},
                                            dict(ctxinfo,
                                                 entry=engb.show(x)))
                    if N is None and got_ms != full_ms:
                        raise Violation(
                            {'clause': 'randomised-unlimited-not-permutation'},
                            ctxinfo)
                    if not randomize and N is not None:
                        r2 = get(svc, qs, version, N)
                        if engb.canon_response(r2.json, version) != got:
                            raise Violation(
                                {'clause': 'unrandomised-limited-not-stable'},
                                ctxinfo)
                    engb.summaries_check(d, r.json, version, requested,
                                         ctxinfo)
                    if M >= 3 and N is not None and 1 <= N < M:
                        stats.nontriv(stable_hash(
                            [desc, case['query'], version, N, randomize]))
        if M >= 3 and len(stats.samples) < stats.MAX_SAMPLES:
            stats.sample({'version': '1.%d' % version, 'query': qs, 'M': M,
                          'limits': limits})
    finally:
        conf.clear_override('randomize_allocation_candidates',
                            group='placement')


def case_fn(ctx, svc, d, draw, desc, snap):
    version = draw(st.sampled_from(
        [39, 39, 38, 36, 35, 34, 33, 31, 29, 28, 25, 21, 17, 16]))
    q = draw(bgen.queries(d, version, rich=draw(st.integers(0, 9)) < 7))
    qs = q.render(version, draw)
    check(ctx, svc, d, q, version, qs, desc, draw=draw,
          seeds=(1, 2, 3, 4) if ctx.thorough else (1, 2))


def replay_case(ctx, svc, d, case, desc):
    if 'query' not in case and 'case' in case:
        # violations of one (limit, randomize, seed) run wrap the query case
        case = case['case']
    q = acref.Query.from_json(case['query'])
    check(ctx, svc, d, q, case['version'], case['qs'], desc,
          limits=case.get('limits'), seeds=(1, 2, 3, 4))


def run_worker(ctx):
    engb.run_cases(ctx, case_fn, examples=ctx.pick(12, 80),
                   queries_per_state=ctx.pick(8, 12))


def replay(ctx, data):
    import sys
    return engb.replay_case(ctx, sys.modules[__name__], data)
