"""C15 - arbitrary input yields well-formed client errors, never a server error."""
import json
import logging
import traceback

import hypothesis
from hypothesis import HealthCheck, Phase, given, settings, strategies as st

from pv import bgen, fuzz, gen, machine
from pv.dump import diff, dump
from pv.props import common as C
from pv.runner import Violation, stable_hash

LEVEL = 'exploration'
ASSUMPTIONS = C.ASSUMPTIONS + [
    'integers stay within 64 bits and bodies within a few kB, as the '
    'property\'s quantifier says',
    'the root cause of a 5xx is read from the exc_info that FaultWrapper '
    'logs (a harness logging handler on placement.fault_wrap), failures are '
    'bucketed by (exception type, innermost placement frame)']
RULE = ('Hypothesis-generated states (C03 scope incl. nested sharing providers, '
        'plus an inventory shrunk below its usage) in which valid requests '
        'for every route (engine A builders, valid allocation-candidate and '
        'provider-listing queries from the engine B grammar, reads) receive '
        '1-4 mutations from a grammar: JSON structure (drop/add/rename key, '
        'retype, nest, empty), numbers (0, -1, 2^31-1, 2^31, 2^63-1, -2^63, '
        '1e308, NaN, Infinity), strings (empty, 256+, unicode RTL/combining/'
        'astral, control characters, SQL/percent metacharacters, odd UUID '
        'spellings), raw body (truncated, invalid UTF-8, BOM, duplicate key, '
        'deep nesting), headers (content-type, accept, content-length, '
        'microversion), path (bad uuids, extra/long segments, percent '
        'escapes), query (repeated, conflicting, empty, unknown, bad '
        'percent-encoding), method. Oracle: the WSGI call returns; status < '
        '500; a 4xx answered to a JSON-accepting client has errors[0] with '
        'status == HTTP status, title, detail, request_id and code iff '
        'version >= 1.23; 400/404/405/406/415 leave the raw dump unchanged. '
        'Non-trivial = the mutated request differs from the valid one and was '
        'answered by a handler (not 404-route/405/406-version); distinct = '
        'distinct mutated request.')

READ_ROUTES = ['rp', 'rps', 'inv', 'inv1', 'usages', 'aggs', 'traits',
               'rp_allocs', 'allocs', 'all_traits', 'classes', 'tot_usages']
WRITE_OPS = ['create_rp', 'update_rp', 'delete_rp', 'put_inventories',
             'put_inventories', 'post_inventory', 'put_inventory',
             'delete_inventory', 'delete_inventories', 'put_rp_traits',
             'delete_rp_traits', 'put_rp_aggregates', 'put_trait',
             'delete_trait', 'put_class', 'post_class', 'delete_class',
             'put_allocations', 'put_allocations', 'post_allocations',
             'post_allocations', 'delete_allocations', 'reshaper', 'reshaper',
             'put_allocations_clear']


def b_rename_class(draw, d, prof):
    """PUT /resource_classes/{name} with a body: the rename of 1.2-1.6."""
    have = sorted(n for n in d.classes if n.startswith('CUSTOM_'))
    old = draw(st.sampled_from(have + ['VCPU', 'CUSTOM_PV_NOPE']))
    new = draw(st.sampled_from(have + ['CUSTOM_PV_REN', 'VCPU', 'DISK_GB']))
    return gen.R('PUT', '/resource_classes/' + old,
                 (1, draw(st.integers(2, 6))), {'name': new}, 'rename_class',
                 [])


WRITE_OPS = WRITE_OPS + ['rename_class', 'rename_class']
PROFILE = machine.Profile('c15', 'C15', ops=[(1, o) for o in WRITE_OPS],
                          oracles=[], nontrivial=lambda *a: False,
                          defect_rate=4,
                          builders={'rename_class': b_rename_class})


class FaultCapture(logging.Handler):
    def __init__(self):
        logging.Handler.__init__(self, level=logging.ERROR)
        self.last = None

    def emit(self, record):
        if record.exc_info:
            et, ev, tb = record.exc_info
            frame = None
            for fs in traceback.extract_tb(tb):
                if '/placement/' in fs.filename and \
                        '/tests/' not in fs.filename:
                    frame = '%s:%s' % (
                        fs.filename[fs.filename.index('/placement/') + 11:],
                        fs.name)
            self.last = {'exc': et.__name__, 'frame': frame,
                         'message': str(ev)[:200]}


_CAP = {}


def capture():
    if 'h' not in _CAP:
        h = FaultCapture()
        lg = logging.getLogger('placement.fault_wrap')
        lg.addHandler(h)
        lg.setLevel(logging.ERROR)
        lg.propagate = False
        lg.disabled = False
        logging.disable(logging.WARNING)
        _CAP['h'] = h
    return _CAP['h']


def valid_request(draw, d):
    kind = draw(st.sampled_from(['write', 'write', 'write', 'candidates',
                                 'listing', 'read']))
    if kind == 'write' or not d.providers:
        name = draw(st.sampled_from(WRITE_OPS))
        return machine.build(draw, d, PROFILE, name)
    if kind == 'candidates':
        v = draw(st.sampled_from([39, 39, 38, 36, 34, 29, 26, 25, 17, 16, 10]))
        q = draw(bgen.queries(d, v))
        if draw(st.integers(0, 3)) == 0 and v >= 16:
            q.limit = draw(st.integers(1, 5))
        return gen.R('GET', '/allocation_candidates?' + q.render(v, draw),
                     (1, v), None, 'candidates', [])
    if kind == 'listing':
        v = draw(st.sampled_from([39, 39, 32, 24, 22, 18, 14, 4, 3]))
        f = draw(bgen.rp_filters(d, v))
        return gen.R('GET', '/resource_providers?' + f.render(v, draw),
                     (1, v), None, 'listing', [])
    v = gen.biased_version(draw, 0, 39, (6, 9, 12, 15, 23, 28, 38))
    r = gen.read(draw, d, v)
    if draw(st.integers(0, 5)) == 0:
        r['p'] = draw(st.sampled_from(
            ['/traits?name=in:CUSTOM_PV_T,HW_CPU_X86_AVX2',
             '/traits?associated=true', '/traits?name=startswith:CUSTOM',
             '/usages?project_id=proj-a&user_id=user-a',
             '/usages?project_id=proj-a&consumer_type=INSTANCE', '/']))
    return r


def check_response(req, resp, before, after, cap):
    v = req.get('v')
    hdrs = req.get('h') or {}
    sig_route = req['op']
    if resp.escaped:
        raise Violation({'clause': 'escaped-exception',
                         'exc': resp.escaped.split(':')[0]},
                        {'escaped': resp.escaped})
    if resp.status >= 500:
        info = cap.last or {}
        raise Violation({'clause': 'server-error', 'exc': info.get('exc'),
                         'frame': info.get('frame')},
                        {'status': resp.status, 'message': info.get('message'),
                         'body': resp.body[:300].decode('utf-8', 'replace')})
    if 400 <= resp.status < 500 and resp.status != 401:
        accept = hdrs.get('Accept', 'application/json')
        wants_json = accept is None or accept == '' or \
            'application/json' in accept or '*/*' in accept or \
            'application/*' in accept
        if accept is not None and 'application/json;q=0' in accept:
            wants_json = False
        if wants_json and req['m'] != 'HEAD':
            j = resp.json
            try:
                e = j['errors'][0]
            except Exception:
                raise Violation({'clause': 'error-body-not-errors-json',
                                 'status': resp.status},
                                {'body': resp.body[:300].decode('utf-8',
                                                                'replace'),
                                 'content_type': resp.headers.get(
                                     'Content-Type')})
            for key in ('status', 'title', 'detail', 'request_id'):
                if key not in e:
                    raise Violation({'clause': 'error-body-missing-' + key,
                                     'status': resp.status}, {'error': e})
            if e['status'] != resp.status:
                raise Violation({'clause': 'error-body-status-mismatch',
                                 'status': resp.status}, {'error': e})
            applied = resp.headers.get('openstack-api-version')
            if applied and applied.startswith('placement 1.'):
                n = int(applied.split('.')[1])
                if (n >= 23) != ('code' in e):
                    raise Violation(
                        {'clause': 'error-code-' + ('missing' if n >= 23
                                                    else 'before-1.23'),
                         'status': resp.status},
                        {'error': e, 'version': applied})
    if resp.status in (400, 404, 405, 406, 415):
        # newly recorded project/user/consumer-type names are the residue
        # C04 explicitly allows a rejected request to leave
        df = diff(before, after)
        if df:
            raise Violation({'clause': 'malformed-request-changed-state',
                             'status': resp.status, 'op': sig_route},
                            {'diff': df[:8]})


def overcommit(svc, d):
    """Shrink one used inventory below its usage (legitimate over-commit)."""
    usage = d.usage()
    for (rp, rc), used in sorted(usage.items()):
        inv = d.inventories[(rp, rc)]
        if used >= 2:
            new = dict(inv)
            new['total'] = 1
            new['reserved'] = 0
            new['resource_provider_generation'] = \
                d.providers[rp]['generation']
            svc.request('PUT', '/resource_providers/%s/inventories/%s'
                        % (rp, rc), version='1.39', body=new)
            return True
    return False


def run_worker(ctx):
    svc = machine.service()
    base = machine.base_snapshot(svc)
    cap = capture()
    stats = ctx.stats
    buckets = {}
    per_state = ctx.pick(40, 80)

    def body(data):
        desc = data.draw(bgen.states())
        bgen.build_state(svc, desc, base)
        oc = overcommit(svc, dump(svc.dbpath))
        d = dump(svc.dbpath)
        trace = []
        def one(req, labels, valid, d, trace):
            cap.last = None
            try:
                resp = machine.execute(svc, _decode_raw(req))
            except Exception as e:
                # the harness could not even build the request (e.g. a path
                # webob refuses): not a case
                stats.count('unbuildable request (%s)' % type(e).__name__)
                return d
            after = dump(svc.dbpath)
            stats.evaluations += 1
            trace.append(req)
            stats.count('%s -> %s' % (valid['op'], resp.status))
            for lb in labels:
                stats.count('mutation ' + lb)
            if 'query:list-shape-added' in labels:
                stats.count('separator-only list parameter added to %s -> %s'
                            % (valid['op'], resp.status))
            handled = resp.status not in (405, 406) and not (
                resp.status == 404 and resp.json and 'The resource could not '
                'be found' in json.dumps(resp.json) and
                labels and labels[0].startswith('path'))
            if handled and req != valid:
                stats.nontriv(stable_hash([req['m'], req['p'], req.get('v'),
                                           req.get('b'), req.get('raw'),
                                           req.get('h')]))
                if len(stats.samples) < stats.MAX_SAMPLES and \
                        resp.status == 400:
                    stats.sample({'request': '%s %s @%s' % (
                        req['m'], req['p'][:120], req.get('v')),
                        'body': json.dumps(req.get('b'))[:200]
                        if req.get('raw') is None else req['raw'][:120],
                        'headers': req.get('h'), 'mutations': labels,
                        'status': resp.status})
            try:
                check_response(req, resp, d, after, cap)
            except Violation as v:
                sig = dict(v.signature)
                sig.setdefault('prop', ctx.prop)
                known = ctx.known.match(sig)
                if known is not None:
                    stats.known[known['id']] = \
                        stats.known.get(known['id'], 0) + 1
                else:
                    key = json.dumps(sig, sort_keys=True, default=str)
                    rec = {'signature': sig, 'detail': dict(
                        v.detail or {}, request=req, mutations=labels,
                        valid_request=valid),
                        'replay': {'state': desc, 'overcommit': oc,
                                   'steps': list(trace)}}
                    old = buckets.get(key)
                    if old is None or len(json.dumps(rec['replay'])) < \
                            len(json.dumps(old['replay'])):
                        buckets[key] = rec
            return after

        for _ in range(per_state):
            try:
                valid = valid_request(data.draw, d)
            except (OverflowError, ValueError, ZeroDivisionError) as e:
                # extreme but accepted stored values (e.g. a ratio of 3e38)
                # can defeat the harness's own amount arithmetic: use a read
                stats.count('generator fell back to a read (%s)'
                            % type(e).__name__)
                valid = gen.read(data.draw, d, (1, 39))
            if data.draw(st.integers(0, 6)) == 0:
                # the builders' own single-defect variants (unknown provider
                # or class, missing inventory, stale generation ...) are
                # inputs too: send some of them as they are
                todo = [(valid, ['unmutated'])]
            else:
                todo = [fuzz.mutate(data.draw, valid)]
            if valid['op'] in ('candidates', 'listing') and \
                    data.draw(st.integers(0, 9)) == 0:
                # metamorphic sweep: the otherwise valid query plus ONE
                # list-valued parameter consisting of separators / blanks
                # only must be refused (or ignored), never a server error
                todo += [(r, ['list-shape-sweep'])
                         for r in fuzz.list_shape_variants(valid)]
            for req, labels in todo:
                d = one(req, labels, valid, d, trace)

    test = given(st.data())(body)
    test = hypothesis.seed(ctx.seed)(test)
    test = settings(max_examples=ctx.pick(45, 400), deadline=None,
                    database=None, suppress_health_check=list(HealthCheck),
                    report_multiple_bugs=False, print_blob=False,
                    phases=[Phase.generate],
                    verbosity=hypothesis.Verbosity.quiet)(test)
    test()
    # shrink each bucket's history by delta debugging
    for key, rec in buckets.items():
        rec = minimise(ctx, svc, base, cap, key, rec)
        stats.violations.append(rec)


def _decode_raw(req):
    if req.get('raw') is None:
        return req
    r = dict(req)
    r['raw'] = req['raw'].encode('latin-1')
    return r


def run_steps(svc, base, cap, data, want_key=None, ctx=None):
    bgen.build_state(svc, data['state'], base)
    if data.get('overcommit'):
        overcommit(svc, dump(svc.dbpath))
    d = dump(svc.dbpath)
    out = []
    for req in data['steps']:
        cap.last = None
        try:
            resp = machine.execute(svc, _decode_raw(req))
        except Exception:
            continue
        after = dump(svc.dbpath)
        try:
            check_response(req, resp, d, after, cap)
        except Violation as v:
            sig = dict(v.signature)
            sig.setdefault('prop', 'C15')
            out.append({'signature': sig, 'detail': dict(v.detail or {},
                                                         request=req)})
        d = after
    return out


def minimise(ctx, svc, base, cap, key, rec):
    steps = rec['replay']['steps']
    if len(steps) <= 1:
        return rec
    last = steps[-1]

    def test(prefix):
        data = dict(rec['replay'])
        data['steps'] = prefix + [last]
        try:
            for r in run_steps(svc, base, cap, data):
                if json.dumps(r['signature'], sort_keys=True,
                              default=str) == key:
                    return True
        except Exception:
            return False
        return False

    try:
        if test([]):
            kept = []
        else:
            kept = machine.ddmin(steps[:-1], test, budget=40)
    except Exception:
        return rec
    new = dict(rec)
    new['replay'] = dict(rec['replay'], steps=kept + [last])
    return new


def replay(ctx, data):
    svc = machine.service()
    base = machine.base_snapshot(svc)
    return run_steps(svc, base, capture(), data)
