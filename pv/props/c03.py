"""C03 - allocation candidates are exactly the combinations the request describes."""
from hypothesis import strategies as st

from pv import acref, bgen, engb
from pv.props import common as C
from pv.runner import Violation, stable_hash

LEVEL = 'exploration'
ASSUMPTIONS = C.ASSUMPTIONS + [
    'reference enumerator pv/acref.py written from the property statement, '
    'rest_api_version_history.rst and provider-tree.rst; where those are '
    'silent (forbidden aggregate on the anchor of a sharing provider) '
    "placement's choice is followed"]
RULE = ('Hypothesis-generated (state, query, microversion) triples: states of '
        '<= 7 providers in <= 3 trees of depth <= 3 with sharing providers at '
        'root and nested positions, aggregates on roots and children, traits, '
        'partial usage, built through the API; valid queries from a grammar '
        '(unsuffixed + <= 3 suffixed groups, traits incl. any-of and '
        'forbidden, member_of incl. in:/!/!in:, in_tree, group_policy, '
        'root_required, same_subtree, resourceless groups) rendered for '
        'versions 1.10-1.39 with shuffled parameters. Oracle: set equality of '
        '(allocations, mappings) with a brute-force declarative enumerator '
        'over the raw dump. Non-trivial = reference result non-empty and the '
        'case uses >= 2 of {nesting, sharing, multi-group, traits, '
        'aggregates, in_tree, same_subtree, isolate, root_required, '
        'overlapping classes, usage}; distinct = distinct (state, query).')


def check(ctx, svc, d, q, version, qs, desc=None):
    path = '/allocation_candidates?' + qs
    r = svc.request('GET', path, version='1.%d' % version)
    stats = ctx.stats
    stats.evaluations += 1
    case = {'query': q.to_json(), 'version': version, 'qs': qs}
    feats = engb.features(d, q)
    if r.status != 200:
        raise Violation({'clause': 'unexpected-status', 'status': r.status},
                        {'case': case, 'response': r.json,
                         'features': sorted(feats)})
    want = acref.candidates(d, q, version)
    got_list = engb.canon_response(r.json, version)
    if version >= 34:
        got = set(got_list)
        if len(got) != len(got_list):
            raise Violation({'clause': 'duplicate-entries'},
                            {'case': case, 'features': sorted(feats)})
    else:
        # mappings are not shown below 1.34: combinations that differ only
        # in their mappings are rendered identically, so compare as
        # multisets of allocations (entry, multiplicity)
        def multiset(items):
            cnt = {}
            for al in items:
                cnt[al] = cnt.get(al, 0) + 1
            return {(al, n) for al, n in cnt.items()}
        got = multiset(al for al, _m in got_list)
        want = multiset(al for al, _m in want)
    stats.count('results %s' % ('0' if not want else
                                '1-3' if len(want) <= 3 else '4+'))
    for f in feats:
        stats.count('feature ' + f)
    if not want:
        stats.count('empty because ' + why_empty(d, q, version))
    if want and len(feats) >= 2:
        stats.nontriv(stable_hash([desc, case['query'], version]))
        if len(stats.samples) < stats.MAX_SAMPLES:
            stats.sample({'version': '1.%d' % version, 'query': qs,
                          'providers': len(d.providers),
                          'features': sorted(feats), 'results': len(want)})
    if got != want:
        omitted = want - got
        spurious = got - want
        clause = ('omitted-and-spurious' if omitted and spurious
                  else 'omitted' if omitted else 'spurious')
        raise Violation(
            {'clause': clause},
            {'case': case, 'features': sorted(feats),
             'omitted': [engb.show(c) for c in sorted(omitted, key=repr)[:3]],
             'spurious': [engb.show(c) for c in sorted(spurious, key=repr)[:3]],
             'n_want': len(want), 'n_got': len(got)})


def why_empty(d, q, version):
    """Which single relaxation makes the reference result non-empty
    (generator diagnostics only)."""
    import copy

    def relaxed(f):
        q2 = copy.deepcopy(q)
        f(q2)
        return bool(acref.candidates(d, q2, version))

    def no_traits(x):
        for g in x.groups.values():
            g.required, g.forbidden = [], set()

    def no_aggs(x):
        for g in x.groups.values():
            g.member_of, g.forbidden_aggs = [], set()

    def no_tree(x):
        for g in x.groups.values():
            g.in_tree = None

    def no_wide(x):
        x.group_policy = None
        x.same_subtree = []
        x.root_required, x.root_forbidden = set(), set()

    def all_of(x):
        no_traits(x), no_aggs(x), no_tree(x), no_wide(x)

    for name, f in (('traits', no_traits), ('aggregates', no_aggs),
                    ('in_tree', no_tree), ('request-wide', no_wide)):
        if relaxed(f):
            return name
    if relaxed(all_of):
        return 'several filters'
    return 'resources'


def case_fn(ctx, svc, d, draw, desc, snap):
    version = draw(st.sampled_from(
        [39, 39, 39, 38, 36, 36, 35, 34, 33, 32, 31, 29, 28, 25, 24, 22, 21,
         17, 16, 12, 10]))
    q = draw(bgen.queries(d, version))
    qs = q.render(version, draw)
    check(ctx, svc, d, q, version, qs, desc)


def replay_case(ctx, svc, d, case, desc):
    q = acref.Query.from_json(case['query'])
    check(ctx, svc, d, q, case['version'], case['qs'], desc)


def run_worker(ctx):
    engb.run_cases(ctx, case_fn, examples=ctx.pick(25, 400),
                   queries_per_state=ctx.pick(12, 20))


def replay(ctx, data):
    import sys
    return engb.replay_case(ctx, sys.modules[__name__], data)
