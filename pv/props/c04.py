"""C04 - rejected writes leave no trace; multi-entity writes are all-or-nothing."""
from pv import machine, oracles
from pv.props import common as C

RULE = ('Hypothesis rule-based state machine: in generated states, multi-entity '
        'writes (POST /allocations with several consumers x providers, PUT '
        '/allocations, PUT inventories with several classes, PUT traits, PUT '
        'aggregates, POST /reshaper) are issued valid or with one named defect '
        'placed on a random entry (unknown provider/class, missing inventory, '
        'over capacity, stale provider generation, stale consumer generation, '
        'inventory in use, schema violation). Oracle: status >= 400 => raw '
        'dump of providers, inventories, allocations, consumers, trait and '
        'aggregate associations, every generation identical to before '
        '(projects/users/consumer types may grow); 2xx => every entity named '
        'in the body has exactly the requested value. Non-trivial = a rejected '
        'write with >= 2 entries whose failing entry is not the first, or one '
        'naming a not-yet-existing consumer, or a rejected reshape / inventory '
        'replacement; distinct = distinct history prefix.')


def nontrivial(m, req, resp, before, after):
    if req['m'] == 'GET' or resp.status < 400:
        return False
    lb = set(req['labels'])
    if 'defect-not-first' in lb or 'new-consumer' in lb:
        return True
    if req['op'] in ('reshaper', 'put_inventories') and lb:
        return True
    return False


PROFILE = machine.Profile(
    'c04', 'C04',
    ops=C.BUILD + C.TRAITAGG * 2 + [(3, 'put_inventories')] +
    [(6, 'put_allocations'), (8, 'post_allocations'), (5, 'reshaper'),
     (1, 'delete_allocations'), (1, 'delete_inventory'), (1, 'delete_rp'),
     (1, 'update_rp')],
    oracles=[oracles.c04_oracle], nontrivial=nontrivial, steps=40,
    boundaries=(8, 12, 13, 19, 28, 30, 38), defect_rate=5, rich_start=5)

C.standard_module(globals(), 'C04', PROFILE, 25, 400)
