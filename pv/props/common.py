"""Shared pieces of the engine-A property modules."""
from pv import machine

ASSUMPTIONS = [
    'SQLite file database on tmpfs (the only DBMS in the sandbox); requests '
    'issued serially through the full deploy.loadapp() WSGI pipeline',
    'oracle reads raw rows with the stdlib sqlite3 module and shares no code '
    'with placement; generators build requests from the same raw dump',
    'bounded scope: <= 8 providers, 4 resource classes, 4 traits, '
    '3 aggregates, 6 consumers, amounts <= ~40',
]

BUILD = [(4, 'create_rp'), (1, 'create_root'), (4, 'put_inventories'),
         (2, 'post_inventory'), (2, 'put_inventory')]
TRAITAGG = [(1, 'put_rp_traits'), (1, 'put_rp_aggregates'),
            (1, 'delete_rp_traits')]
ALLOC = [(5, 'put_allocations'), (4, 'post_allocations'), (2, 'reshaper'),
         (1, 'delete_allocations'), (1, 'put_allocations_clear')]
DELETE = [(1, 'delete_rp'), (1, 'delete_inventory'), (1, 'delete_inventories'),
          (1, 'delete_trait'), (1, 'delete_class')]
NAMES = [(1, 'put_trait'), (1, 'put_class'), (1, 'post_class')]
STRUCT = [(1, 'update_rp')]
READ = [(1, 'read')]


def standard_module(glb, prop, profile, quick, thorough, rounds=2):
    def run_worker(ctx):
        machine.run_machine(ctx, profile, examples=ctx.pick(quick, thorough),
                            rounds=rounds)

    def replay(ctx, data):
        return machine.replay_machine(ctx, profile, data)
    glb['run_worker'] = run_worker
    glb['replay'] = replay
    glb.setdefault('LEVEL', 'exploration')
    glb.setdefault('ASSUMPTIONS', ASSUMPTIONS)
