"""C08 - stored records never dangle; entities in use cannot be removed."""
from pv import machine, oracles
from pv.props import common as C

RULE = ('Hypothesis rule-based state machine: histories mixing creation, '
        'replacement and deletion of providers, inventories (PUT dropping '
        'classes, DELETE one/all, reshaper), resource classes, traits, '
        'aggregates and allocations at random microversions; after every '
        'request raw-SQL anti-joins (allocation->provider/inventory/consumer, '
        'inventory->provider/class, trait and aggregate associations) must be '
        'empty and every DELETE is judged against the raw state before it '
        '(in use => 409/400 and nothing changed; free => 204 and dependent '
        'rows gone). Non-trivial = a DELETE, class-dropping PUT or reshape '
        'whose target is in use or has dependent rows; distinct = distinct '
        'request-history prefix.')


def nontrivial(m, req, resp, before, after):
    lb = set(req['labels'])
    if req['m'] == 'DELETE' and lb & {'in-use', 'has-children',
                                      'has-allocations', 'standard'}:
        return True
    if req['op'] in ('put_inventories', 'reshaper') and \
            lb & {'drops-in-use', 'drops-class'}:
        return True
    if req['op'] == 'delete_rp' and resp.ok and (
            any(k[0] == req['target'] for k in before.inventories) or
            any(k[0] == req['target'] for k in before.rp_traits) or
            any(k[0] == req['target'] for k in before.rp_aggs)):
        return True
    return False


PROFILE = machine.Profile(
    'c08', 'C08',
    ops=C.BUILD + C.TRAITAGG + C.ALLOC + [(3, 'delete_rp'),
                                           (3, 'delete_inventory'),
                                           (2, 'delete_inventories'),
                                           (2, 'delete_trait'),
                                           (2, 'delete_class')] + C.NAMES,
    oracles=[oracles.c08_oracle], nontrivial=nontrivial, steps=40,
    boundaries=(5, 12, 13, 28, 30), defect_rate=2, rich_start=5)

C.standard_module(globals(), 'C08', PROFILE, 25, 400)
