"""C01 - allocation writes never over-commit inventory or break unit constraints."""
from pv import machine, oracles
from pv.props import common as C

RULE = ('Hypothesis rule-based state machine: histories that build a forest, '
        'set/replace/shrink inventories (total, reserved, min/max_unit, '
        'step_size, fractional allocation_ratio; shrinking below usage '
        'included) and issue allocation writes of every shape (PUT list form '
        '<1.12, dict form, with consumer generations >=1.28, POST with 1-4 '
        'consumers sharing (provider, class) pairs, replace/grow/shrink/clear, '
        'POST /reshaper) with amounts biased to capacity and unit boundaries. '
        'Oracle on raw dumps around every request: every positive amount of an '
        'accepted write has an inventory, min_unit<=a<=max_unit, a%step==0, '
        'sum(used) <= (total-reserved)*ratio in IEEE double; usage of a pair '
        'grows only through an accepted allocation write placing there; a '
        'pair becomes over-committed only with an inventory change; usage '
        'never grows while over-committed. Non-trivial = an allocation write '
        '(accepted or rejected) near a capacity/unit boundary, sharing a pair '
        'between consumers, replacing usage, on an over-committed pair, or a '
        'reshape with allocations; distinct = distinct history prefix.')


def nontrivial(m, req, resp, before, after):
    if req['op'] not in ('put_allocations', 'post_allocations', 'reshaper'):
        return False
    lb = set(req['labels'])
    return bool(lb & {'near-capacity', 'unit-boundary', 'off-step',
                      'shared-pair', 'replaces', 'on-overcommitted',
                      'with-allocations', 'over-capacity'})


PROFILE = machine.Profile(
    'c01', 'C01',
    ops=C.BUILD + [(3, 'put_inventories'), (2, 'put_inventory')] +
    [(8, 'put_allocations'), (7, 'post_allocations'), (4, 'reshaper'),
     (1, 'delete_allocations'), (1, 'put_allocations_clear')],
    oracles=[oracles.c01_oracle], nontrivial=nontrivial, steps=40,
    boundaries=(8, 12, 13, 28, 30, 34, 38), defect_rate=2, rich_start=5)

C.standard_module(globals(), 'C01', PROFILE, 25, 400)
