"""C12 - consumers exist exactly while they hold allocations."""
from hypothesis import strategies as st

from pv import gen, machine, oracles
from pv.props import common as C
from pv.runner import Violation

RULE = ('Hypothesis rule-based state machine: allocation-writing and -deleting '
        'histories over 6 consumers at microversions <1.8, 1.8-1.27, 1.28-1.37 '
        'and >=1.38 under generated [placement]incomplete_consumer_project_id/'
        'user_id, including rejected first writes of every kind (unknown '
        'provider/class, missing inventory, over capacity, stale generation) '
        'and clearing via empty PUT/POST entries, DELETE and reshape. Oracle on '
        'the raw dump after every request: {consumers.uuid} == '
        '{allocations.consumer_id}; project/user/type of a written consumer '
        'equal those of that write (placeholders below 1.8, type unchanged '
        'below 1.38); after a consumer disappeared or its first write was '
        'rejected a write with consumer_generation null is accepted (probed on '
        'a snapshot). Non-trivial = a request after which a consumer row '
        'appears/disappears, or a rejected write naming a new consumer; '
        'distinct = distinct history prefix.')


def init(m, draw):
    for k in ('placement.incomplete_consumer_project_id',
              'placement.incomplete_consumer_user_id'):
        group, name = k.split('.')
        m.svc.conf.clear_override(name, group=group)
    if draw(st.booleans()):
        m.config['placement.incomplete_consumer_project_id'] = draw(
            st.sampled_from(['inc-proj', gen.PROJECTS[0]]))
        m.config['placement.incomplete_consumer_user_id'] = draw(
            st.sampled_from(['inc-user', gen.USERS[1]]))
    machine.apply_config(m)


def nontrivial(m, req, resp, before, after):
    if set(before.consumers) != set(after.consumers):
        return True
    if req['op'] in ('put_allocations', 'post_allocations', 'reshaper') and \
            not resp.ok and 'new-consumer' in req['labels']:
        return True
    return False


def null_write_probe(m, req, resp, before, after):
    """After a consumer disappeared, or a write naming a new consumer was
    rejected, a write with consumer_generation null must be accepted."""
    if req['op'] not in ('put_allocations', 'post_allocations', 'reshaper',
                         'delete_allocations'):
        return
    # (the probe is a PUT, which only takes canonically spelled UUIDs)
    cands = [c for c in (req.get('consumers') or [])
             if c in gen.CONS and c not in after.consumers and
             (c in before.consumers or not resp.ok)]
    if not cands:
        return
    # find a pair with room for a minimal legal amount
    target = None
    for (rp, rc), inv in sorted(after.inventories.items()):
        free = gen.free_for(after, rp, rc)
        for a in range(1, 40):
            if a % inv['step_size'] == 0 and \
                    inv['min_unit'] <= a <= inv['max_unit'] and a <= free:
                target = (rp, rc, a)
                break
        if target:
            break
    if not target:
        return
    rp, rc, a = target
    snap = m.svc.snapshot()
    try:
        for c in cands[:2]:
            m.svc.restore(snap)
            body = {'allocations': {rp: {'resources': {rc: a}}},
                    'project_id': 'proj-a', 'user_id': 'user-a',
                    'consumer_generation': None}
            r = m.svc.request('PUT', '/allocations/' + c, version='1.28',
                              body=body)
            m.rec.ctx.stats.count('null-generation probe -> %s' % r.status)
            if r.status != 204:
                raise Violation(
                    {'clause': 'null-generation-write-refused-after-'
                               + ('removal' if c in before.consumers
                                  else 'rejected-first-write'),
                     'probe_status': r.status},
                    {'consumer': c, 'probe_body': body,
                     'probe_response': r.json})
    finally:
        m.svc.restore(snap)


PROFILE = machine.Profile(
    'c12', 'C12',
    ops=C.BUILD + [(8, 'put_allocations'), (6, 'post_allocations'),
                   (3, 'reshaper'), (3, 'delete_allocations'),
                   (3, 'put_allocations_clear'), (1, 'delete_inventory')],
    oracles=[oracles.c12_oracle, null_write_probe], nontrivial=nontrivial,
    steps=40, boundaries=(8, 12, 13, 28, 38), defect_rate=4, init=init, rich_start=5)

C.standard_module(globals(), 'C12', PROFILE, 25, 400)
