"""C18 - a crash at any point leaves a state satisfying the core invariants."""
import json
import os
import sqlite3

import hypothesis
from hypothesis import HealthCheck, Phase, given, settings, strategies as st

from pv import bgen, corpus, faults, gen, machine, oracles
from pv.dump import dump
from pv.props import c17
from pv.props import common as C
from pv.runner import Violation, stable_hash

LEVEL = 'fault_enumeration'
ASSUMPTIONS = C.ASSUMPTIONS[:2] + [
    'a crash is a real process death: the request runs in a forked child that '
    'calls os._exit() inside a SQLAlchemy event (no except/finally/context '
    'manager runs, the connection is simply gone); the parent then opens the '
    'database file, SQLite rolls back the hot journal, and the invariants are '
    'evaluated on the recovered file',
    'crash points = before and after every SQL statement, before every '
    'commit, after every transaction end (connection returned to the pool)',
    'SQLite journal recovery stands in for the rollback a server DBMS '
    'performs when a client connection dies']
RULE = ('Corpus of Hypothesis-generated (state, request) pairs over every '
        'write route (same builders as C17, incl. multi-consumer POST '
        '/allocations, reshaper, inventory/trait/aggregate replacement, '
        're-parenting of subtrees, deletes). For each pair the number of crash '
        'points N is counted in a fault-free run, then for EVERY index k < N '
        'the snapshot is restored, a child process is forked, runs the request '
        'and is killed at point k. Oracle on the recovered file: no (provider, '
        'class) over-committed that is not over-committed before or after the '
        'complete request; no dangling allocation/inventory/association rows; '
        'provider forest with correct roots; the invariant-bearing rows '
        '(allocations, inventories, trait and aggregate associations, provider '
        'parent/root/name, generations of providers and of consumers holding '
        'allocations) equal either the pre-request or the completed-request '
        'projection as a whole, never a mixture; allowed residue: projects, '
        'users, consumer types, consumers without allocations, aggregate and '
        'trait/class name rows. Non-trivial = a crash point after the '
        'request\'s first INSERT/UPDATE/DELETE and before its last commit; '
        'distinct = distinct (state, request, k).')

WRITE_OPS = c17.WRITE_OPS + ['update_rp', 'update_rp', 'post_allocations',
                             'reshaper', 'move_subtree', 'move_subtree',
                             'move_subtree', 'post_allocations_existing',
                             'post_allocations_existing',
                             'delete_allocations_held',
                             'delete_allocations_held',
                             'put_rp_aggregates_swap',
                             'put_rp_traits_swap', 'put_rp_traits_swap',
                             'put_allocations_existing_old']


def core(d):
    holders = {c for (c, _p, _k) in d.allocations}
    return {
        'providers': {u: (p['name'], p['parent'], p['root'], p['generation'])
                      for u, p in d.providers.items()},
        'inventories': d.inventories,
        'allocations': d.allocations,
        'consumers': {u: (c['generation'], c['project'], c['user'],
                          c['type'])
                      for u, c in d.consumers.items() if u in holders},
        'rp_traits': d.rp_traits,
        'rp_aggs': d.rp_aggs,
    }


def recover(path):
    """Open read-write so that SQLite rolls back a hot journal."""
    con = sqlite3.connect(path)
    try:
        con.execute('SELECT count(*) FROM sqlite_master').fetchone()
    finally:
        con.close()


def check_pair(ctx, svc, inj, snap, before, req, desc=None, only=None):
    stats = ctx.stats
    svc.restore(snap)
    inj.count_events()
    inj.start()
    ref_resp = machine.execute(svc, req)
    inj.stop()
    n = inj.events
    log = list(inj.crash_log)
    inj.crash = None
    ref = dump(svc.dbpath)
    stats.count('corpus %s -> %s (%d points)' % (
        req['op'], ref_resp.status, 10 * (n // 10)))
    cb, cr = core(before), core(ref)
    # crash points between the first write statement and the last commit
    commits = [i for i, e in enumerate(log) if e == 'before-commit']
    last_commit = commits[-1] if commits else -1
    ks = range(n) if only is None else [only]
    oc_allowed = oracles.over_committed(before) | oracles.over_committed(ref)
    for k in ks:
        svc.restore(snap)
        pid = os.fork()
        if pid == 0:
            try:
                inj.arm_crash(k)
                machine.execute(svc, req)
            finally:
                os._exit(0)
        _pid, status = os.waitpid(pid, 0)
        code = os.WEXITSTATUS(status) if os.WIFEXITED(status) else -1
        if code != 137:
            stats.count('crash point not reached')
            continue
        recover(svc.dbpath)
        got = dump(svc.dbpath)
        stats.evaluations += 1
        case = {'k': k}
        event_name = log[k] if k < len(log) else '?'
        cg = core(got)
        outcome = 'as-before' if cg == cb else 'as-completed' if cg == cr \
            else 'MIXED'
        stats.count('%s -> %s' % (event_name, outcome))
        if k <= last_commit and cb != cr:
            stats.nontriv(stable_hash([desc, req, k]))
            if len(stats.samples) < stats.MAX_SAMPLES and (
                    outcome != 'as-before' or k == last_commit or
                    k == last_commit // 2):
                stats.sample({'request': '%s %s @%s' % (req['m'], req['p'],
                                                        req['v']),
                              'crash_points': n, 'killed_at': k,
                              'event': event_name, 'recovered': outcome})
        detail = {'case': case, 'event': event_name, 'points': n,
                  'reference_status': ref_resp.status}
        if got.dangling:
            raise Violation({'clause': 'dangling-after-crash',
                             'op': req['op'],
                             'kind': got.dangling[0].split(' ')[0]},
                            dict(detail, dangling=got.dangling[:5]))
        try:
            oracles.forest_invariant(got, 'forest-after-crash')
        except Violation as v:
            raise Violation(dict(v.signature, op=req['op']),
                            dict(detail, forest=v.detail))
        bad = oracles.over_committed(got) - oc_allowed
        if bad:
            raise Violation({'clause': 'over-committed-after-crash',
                             'op': req['op']},
                            dict(detail, pairs=sorted(bad)))
        if outcome == 'MIXED':
            tables = sorted(t for t in cg if cg[t] != cb[t])
            tables_r = sorted(t for t in cg if cg[t] != cr[t])
            raise Violation(
                {'clause': 'partial-effect-after-crash', 'op': req['op'],
                 'differs_from_before': '+'.join(tables),
                 'differs_from_completed': '+'.join(tables_r)},
                dict(detail, diff_vs_before=diff(cb, cg)[:8],
                     diff_vs_completed=diff(cr, cg)[:8]))


def diff(a, b):
    out = []
    for t in a:
        if a[t] == b[t]:
            continue
        if isinstance(a[t], dict):
            for k in sorted(set(a[t]) | set(b[t]), key=repr):
                if a[t].get(k) != b[t].get(k):
                    out.append('%s[%s]: %r vs %r' % (t, k, a[t].get(k),
                                                     b[t].get(k)))
        else:
            out.append('%s: %r vs %r' % (t, sorted(a[t] - b[t])[:4],
                                         sorted(b[t] - a[t])[:4]))
    return out


PROFILE = machine.Profile('c18', 'C18', ops=[(1, o) for o in WRITE_OPS],
                          oracles=[], nontrivial=lambda *a: False,
                          defect_rate=0)


def build_request(draw, d):
    name = draw(st.sampled_from(WRITE_OPS))
    if name in corpus.EXTRA:
        return corpus.EXTRA[name](draw, d, PROFILE)
    if name in ('put_allocations_existing', 'put_rp_aggregates'):
        return c17.build_request(draw, d)
    return machine.build(draw, d, PROFILE, name)


def run_worker(ctx):
    svc = machine.service()
    base = machine.base_snapshot(svc)
    inj = faults.Injector.get(svc)
    skip = set()
    last = {}
    per_state = ctx.pick(4, 8)

    def body(data):
        desc = data.draw(bgen.states(max_providers=5))
        bgen.build_state(svc, desc, base)
        before = dump(svc.dbpath)
        snap = svc.snapshot()
        for _ in range(per_state):
            req = build_request(data.draw, before)
            try:
                check_pair(ctx, svc, inj, snap, before, req, desc)
            except Violation as v:
                sig = dict(v.signature)
                sig.setdefault('prop', ctx.prop)
                known = ctx.known.match(sig)
                if known is not None:
                    ctx.stats.known[known['id']] = \
                        ctx.stats.known.get(known['id'], 0) + 1
                    continue
                key = json.dumps(sig, sort_keys=True, default=str)
                if key in skip:
                    continue
                last['fail'] = (key, {
                    'signature': sig, 'detail': v.detail,
                    'replay': {'state': desc, 'req': req,
                               'k': v.detail['case']['k']}})
                raise

    examples = ctx.pick(3, 30)
    for rnd in range(3):
        last.pop('fail', None)
        test = given(st.data())(body)
        test = hypothesis.seed(ctx.seed + rnd)(test)
        test = settings(
            max_examples=examples, deadline=None, database=None,
            suppress_health_check=list(HealthCheck),
            report_multiple_bugs=False, print_blob=False,
            phases=[Phase.generate],
            verbosity=hypothesis.Verbosity.quiet)(test)
        try:
            test()
            break
        except (Violation, hypothesis.errors.Flaky) as exc:
            # Flaky: the tested code answered differently when Hypothesis
            # re-ran the failing example (e.g. hash-order dependence); the
            # violation recorded at its first occurrence stands
            if 'fail' not in last:
                raise
            key, rec = last['fail']
            if not isinstance(exc, Violation):
                rec['detail'] = dict(rec.get('detail') or {},
                                     nondeterministic_on_rerun=True)
            skip.add(key)
            ctx.stats.violations.append(rec)


def replay(ctx, data):
    svc = machine.service()
    base = machine.base_snapshot(svc)
    inj = faults.Injector.get(svc)
    bgen.build_state(svc, data['state'], base)
    before = dump(svc.dbpath)
    snap = svc.snapshot()
    try:
        check_pair(ctx, svc, inj, snap, before, data['req'], data['state'],
                   only=data['k'])
    except Violation as v:
        sig = dict(v.signature)
        sig.setdefault('prop', ctx.prop)
        return [{'signature': sig, 'detail': v.detail}]
    return []
