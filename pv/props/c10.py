"""C10 - generations move forward on every change and only then."""
from pv import cgen, engc, machine, oracles, sched
from pv.runner import Violation
from pv.props import common as C

RULE = ('Hypothesis rule-based state machine over all write routes plus reads; '
        'oracle on raw dump deltas per request: 2xx and the provider\'s '
        'inventory / trait / (>=1.19) aggregate rows differ => generation '
        'strictly larger; accepted allocation write placing a positive amount '
        'on p => gen(p) strictly larger; consumer written and still existing '
        '=> its generation strictly larger; GET and non-2xx => no generation '
        'changes; no generation of a surviving row decreases; generation in a '
        'write response equals stored value and the next GET. No-op writes '
        'may or may not bump. Non-trivial = a successful write through one of '
        'the paths named in the property (bulk POST, reshaper, inventory '
        'deletion, trait clearing, aggregates on both sides of 1.19, '
        'allocation removal, ...) or a rejected write in a state with '
        'generations > 0; distinct = distinct history prefix. The check is '
        'inconclusive (exit 2) if a named path was never taken. In addition a '
        'small schedule exploration (engine C, 2-3 concurrent writes on one '
        'provider) checks that a successful write reports the generation it '
        'committed and that no generation decreases at any scheduling point.')

PATHS = ['aggregates>=1.19', 'aggregates<1.19', 'alloc-put', 'alloc-clear',
         'post_allocations', 'reshaper', 'delete_allocations',
         'delete_inventory', 'delete_inventories', 'delete_rp_traits',
         'put_rp_traits', 'put_inventories', 'put_inventory',
         'post_inventory']


def nontrivial(m, req, resp, before, after):
    p = oracles.c10_path(req, resp, before, after)
    if p:
        m.rec.ctx.stats.count('path ' + p)
        return True
    if req['m'] != 'GET' and not resp.ok and any(
            x['generation'] > 0 for x in before.providers.values()):
        return True
    return False


PROFILE = machine.Profile(
    'c10', 'C10',
    ops=C.BUILD + C.TRAITAGG * 3 + C.ALLOC + C.DELETE + C.READ * 2 +
    C.STRUCT + [(2, 'delete_inventory'), (2, 'delete_inventories')],
    oracles=[oracles.c10_oracle], nontrivial=nontrivial, steps=40,
    boundaries=(19, 28, 13, 30), defect_rate=3, rich_start=5)

C.standard_module(globals(), 'C10', PROFILE, 25, 400)
_run = run_worker  # noqa: F821


def race_oracle(ctx, svc, snap, start, reqs, race, schedule):
    engc.returned_generation_is_committed(race, start, reqs)
    # an accepted allocation write bumps the providers it places on and the
    # consumers it writes, in the transaction that commits it - also when it
    # got there through the server-side retry
    for n in sorted(reqs):
        req, resp = reqs[n], race.responses[n]
        if not resp.ok or req['op'] not in ('put_allocations',
                                            'post_allocations', 'reshaper'):
            continue
        prev, own, before = start, None, None
        for (name, kind, d) in race.points:
            if d is None:
                continue
            if name == n and kind == 'txn-end' and \
                    sched.noids(d) != sched.noids(prev):
                own, before = d, prev
            prev = d
        if own is None:
            continue
        for (c, rp, rc, amt) in oracles.placed_amounts(req):
            if amt > 0 and rp in before.providers and rp in own.providers \
                    and own.allocations.get((c, rp, rc)) == amt:
                if not own.providers[rp]['generation'] > \
                        before.providers[rp]['generation']:
                    raise Violation(
                        {'clause': 'allocation-write-without-provider-'
                                   'generation-increase-under-race',
                         'op': req['op']}, {'provider': rp, 'request': n})
        for c in req.get('consumers') or []:
            x, y = before.consumers.get(c), own.consumers.get(c)
            if x is not None and y is not None and x['id'] == y['id'] and \
                    not y['generation'] > x['generation']:
                raise Violation(
                    {'clause': 'allocation-write-without-consumer-'
                               'generation-increase-under-race',
                     'op': req['op']}, {'consumer': c, 'request': n})
    # no generation of a surviving row ever decreases, under any schedule
    prev = start
    for (_n, _k, d) in race.points:
        if d is None:
            continue
        for u, p in prev.providers.items():
            q = d.providers.get(u)
            if q is not None and q['id'] == p['id'] and \
                    q['generation'] < p['generation']:
                raise Violation({'clause': 'provider-generation-decreased-'
                                           'under-race'}, {'provider': u})
        prev = d


def run_worker(ctx):
    _run(ctx)
    # the same statement with other requests in flight (the response of a
    # write must still report the generation that write committed)
    engc.run_cases(ctx, cgen.provider_race_case, race_oracle,
                   examples=ctx.pick(3, 40), free=3, splits=6)
    # once more with the documented option that leaves the server-side
    # retry of allocation writes a single attempt
    svc = machine.service()
    svc.conf.set_override('allocation_conflict_retry_count', 1,
                          group='placement')
    try:
        engc.run_cases(ctx, cgen.provider_race_case, race_oracle,
                       examples=ctx.pick(2, 20), free=2, splits=4)
    finally:
        svc.conf.clear_override('allocation_conflict_retry_count',
                                group='placement')
    if ctx.idx == 0:
        ctx.stats.extra['paths_required'] = PATHS


_replay_machine = replay  # noqa: F821


def replay(ctx, data):
    if 'reqs' in data:
        out = engc.replay(ctx, race_oracle, data)
        if out:
            return out
        # the case may stem from the phase run with a single retry attempt
        svc = machine.service()
        svc.conf.set_override('allocation_conflict_retry_count', 1,
                              group='placement')
        try:
            return engc.replay(ctx, race_oracle, data)
        finally:
            svc.conf.clear_override('allocation_conflict_retry_count',
                                    group='placement')
    return _replay_machine(ctx, data)
