"""C10 - generations move forward on every change and only then."""
from pv import machine, oracles
from pv.props import common as C

RULE = ('Hypothesis rule-based state machine over all write routes plus reads; '
        'oracle on raw dump deltas per request: 2xx and the provider\'s '
        'inventory / trait / (>=1.19) aggregate rows differ => generation '
        'strictly larger; accepted allocation write placing a positive amount '
        'on p => gen(p) strictly larger; consumer written and still existing '
        '=> its generation strictly larger; GET and non-2xx => no generation '
        'changes; no generation of a surviving row decreases; generation in a '
        'write response equals stored value and the next GET. No-op writes '
        'may or may not bump. Non-trivial = a successful write through one of '
        'the paths named in the property (bulk POST, reshaper, inventory '
        'deletion, trait clearing, aggregates on both sides of 1.19, '
        'allocation removal, ...) or a rejected write in a state with '
        'generations > 0; distinct = distinct history prefix. The check is '
        'inconclusive (exit 2) if a named path was never taken.')

PATHS = ['aggregates>=1.19', 'aggregates<1.19', 'alloc-put', 'alloc-clear',
         'post_allocations', 'reshaper', 'delete_allocations',
         'delete_inventory', 'delete_inventories', 'delete_rp_traits',
         'put_rp_traits', 'put_inventories', 'put_inventory',
         'post_inventory']


def nontrivial(m, req, resp, before, after):
    p = oracles.c10_path(req, resp, before, after)
    if p:
        m.rec.ctx.stats.count('path ' + p)
        return True
    if req['m'] != 'GET' and not resp.ok and any(
            x['generation'] > 0 for x in before.providers.values()):
        return True
    return False


PROFILE = machine.Profile(
    'c10', 'C10',
    ops=C.BUILD + C.TRAITAGG * 3 + C.ALLOC + C.DELETE + C.READ * 2 +
    C.STRUCT + [(2, 'delete_inventory'), (2, 'delete_inventories')],
    oracles=[oracles.c10_oracle], nontrivial=nontrivial, steps=40,
    boundaries=(19, 28, 13, 30), defect_rate=3, rich_start=5)

C.standard_module(globals(), 'C10', PROFILE, 25, 400)
_run = run_worker  # noqa: F821


def run_worker(ctx):
    _run(ctx)
    if ctx.idx == 0:
        ctx.stats.extra['paths_required'] = PATHS
