"""C06 - consumer generations prevent lost updates of a consumer's allocations."""
from pv import cgen, engc, gen, sched
from pv.props import c07
from pv.props import common as C
from pv.runner import Violation

LEVEL = 'exploration'
ASSUMPTIONS = c07.ASSUMPTIONS
RULE = ('Hypothesis-generated start states and 2-3 concurrent PUT '
        '/allocations/{c}, POST /allocations and POST /reshaper requests at '
        'microversions >= 1.28 sharing one consumer that is new (all carry '
        'null, or a mix of null and integers) or existing (all carry its '
        'generation, or a mix with stale values), including clearing writes. '
        'Schedules: all atomic insertions (exhaustive), sampled two-splits, '
        'free schedules. Oracle: among writes carrying the same generation at '
        'most one is 2xx (unless a winner cleared the consumer in between); a '
        '2xx write carried the generation stored immediately before its write '
        'transaction (null <=> no row, or a row it created itself and nobody '
        'touched); no 5xx; a loser is 409 placement.concurrent_update whenever '
        'the stale generation is the only thing wrong with it; a rejected '
        'request committed nothing but rows it removed again, unmodified by '
        'others (so losers, incl. auto-created consumers, left no effect and '
        'destroyed nothing); no dangling rows; when all carried generations '
        'are plausible for the start state the final raw dump equals the '
        'serial replay of the 2xx requests; GET /allocations/{c} afterwards equals '
        'the last winner\'s body. Non-trivial = interleaved schedule (another '
        'request\'s write commits between a request\'s transactions); '
        'distinct = distinct (state, requests, schedule).')


def body_for(req, c):
    b = req['b']
    if req['op'] == 'put_allocations':
        return b
    if req['op'] == 'post_allocations':
        return b.get(c)
    return b['allocations'].get(c)


def creator_of(race, start, c, row_id, upto=None):
    """Name of the request whose transaction made the incarnation of consumer
    c's record present in dump `upto` appear (None if it was there at the
    start).  Row ids are reused by SQLite after a delete, so the LAST
    appearance before `upto` counts, not the first."""
    prev = start
    creator = None
    for (name, kind, d) in race.points:
        if prev is upto:
            break
        if d is None:
            continue
        had = prev.consumers.get(c)
        has = d.consumers.get(c)
        if has is not None and has['id'] == row_id and (
                had is None or had['id'] != row_id):
            creator = name
        prev = d
    return creator


def oracle(ctx, svc, snap, start, reqs, race, schedule):
    engc.no_server_error(reqs, race)
    c = None
    for r in reqs.values():
        c = r['carried_consumer'][0]
    winners = [n for n in sorted(reqs) if race.responses[n].ok]
    cleared = any(not body_for(reqs[n], c)['allocations'] for n in winners)
    by_gen = {}
    for n in winners:
        g = reqs[n]['carried_consumer'][1]
        by_gen.setdefault(repr(g), []).append(n)
        before = race.state_before_last_write(n, start)
        if before is None:
            continue
        row = before.consumers.get(c)
        if g is None:
            # "no consumer row", or the fresh record this very request
            # created a moment ago (generation 0, nothing allocated)
            ok = row is None or (
                row['generation'] == 0 and
                creator_of(race, start, c, row['id'], before) == n and
                not any(k[0] == c for k in before.allocations))
        else:
            ok = row is not None and row['generation'] == g
        if not ok:
            raise Violation(
                {'clause': 'accepted-with-other-consumer-generation',
                 'op': reqs[n]['op'], 'carried': repr(g)},
                {'stored_before_write': row, 'request': n})
    if not cleared:
        for g, names in by_gen.items():
            if len(names) > 1:
                raise Violation(
                    {'clause': 'two-successes-with-same-consumer-generation',
                     'ops': '+'.join(sorted(reqs[n]['op'] for n in names)),
                     'carried': g},
                    {'requests': names,
                     'statuses': {n: race.responses[n].status for n in reqs}})
    engc.loser_no_effect(race, start, reqs)
    # Serial equivalence is demanded when every carried generation is
    # plausible for the start state (null for a consumer that does not exist,
    # an integer for one that does).  A request carrying an integer for a
    # consumer that does not exist can only ever succeed against the transient
    # record of another in-flight request; the statement's own clauses (checked
    # above) still apply to it, serializability (C07) is not claimed for it.
    plausible = all(
        (r['carried_consumer'][1] is None) == (c not in start.consumers)
        for r in reqs.values())
    if plausible:
        order = engc.serial_equivalent(ctx, svc, snap, start, reqs, race)
    else:
        ctx.stats.count('implausible generation mix (no serial oracle)')
        order = [n for n in race.commit_order(start) if n in winners]
        order += [n for n in winners if n not in order]
    for n in sorted(reqs):
        engc.loser_status(ctx, svc, snap, reqs, race, order, n)
    if not plausible:
        return
    # the consumer's view equals the last winner's body
    last = [n for n in order if body_for(reqs[n], c) is not None]
    if last:
        svc.restore(snap)
        sched.serial(svc, snap, reqs, order)   # same state as race.final
        r = svc.request('GET', '/allocations/' + c, version='1.38')
        want = body_for(reqs[last[-1]], c)
        got = {rp: x['resources']
               for rp, x in r.json['allocations'].items()}
        exp = {rp: x['resources'] for rp, x in want['allocations'].items()}
        if got != exp:
            raise Violation({'clause': 'final-view-not-last-winners-body'},
                            {'got': got, 'want': exp})


def run_worker(ctx):
    engc.run_cases(ctx, cgen.consumer_race_case, oracle,
                   examples=ctx.pick(6, 24))


def replay(ctx, data):
    return engc.replay(ctx, oracle, data)
