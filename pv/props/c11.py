"""C11 - reads report exactly the state produced by the successful writes."""
import json

from hypothesis import strategies as st

from pv import gen, machine, model
from pv.dump import diff
from pv.oracles import fail
from pv.props import common as C

RULE = ('Hypothesis rule-based state machine over every route at '
        'microversions 1.0-1.39: valid writes and the named single-defect '
        'variants of engine A interleaved with reads of every view (provider, '
        'provider list with name/uuid/in_tree, inventories, one inventory, '
        'usages, aggregates, traits, allocations by provider and by consumer, '
        'trait and class listings with filters, /usages by project, user and '
        'consumer type). Oracle = a reference model written from the API '
        'reference (pv/model.py): for every request the status must be one '
        'the documented meaning prescribes in the state before it; after a '
        'success the raw rows must equal the model\'s transition applied to '
        'the rows before (after a refusal: be unchanged); every successful '
        'GET body must equal the view the model derives from the raw rows, '
        'and write responses that carry a representation must show the new '
        'state. A read-sweep step fetches all views and '
        'checks the cross-view identities on the responses themselves '
        '(provider usage = sum over consumers\' allocations; per-provider '
        'allocations = transpose of per-consumer allocations; /usages totals '
        '= sum over the project\'s consumers). Non-trivial = a read judged '
        'against a state that >= 1 successful write produced, a successful '
        'write, or a refusal whose status the model derived from the state '
        '(not from the schema); distinct = distinct history prefix.')

BOUNDS = (1, 2, 5, 6, 8, 9, 11, 12, 13, 14, 19, 20, 26, 28, 30, 37, 38)


def b_read(draw, d, prof):
    v = gen.biased_version(draw, 0, 39, BOUNDS)
    ex = sorted(d.providers)
    u = draw(st.sampled_from(ex + [gen.GHOST_RP])) if ex else gen.GHOST_RP
    c = draw(st.sampled_from(gen.CONS))
    kind = draw(st.sampled_from(
        ['rp', 'rps', 'rps_f', 'inv', 'inv1', 'usages', 'aggs', 'traits',
         'rp_allocs', 'allocs', 'all_traits', 'trait1', 'classes', 'class1',
         'tot_usages', 'tot_usages', 'rp_allocs', 'allocs', 'usages']))
    if kind == 'rp':
        p = '/resource_providers/' + u
    elif kind == 'rps':
        p = '/resource_providers'
    elif kind == 'rps_f':
        f = draw(st.sampled_from(['in_tree', 'name', 'uuid']))
        if f == 'name':
            names = sorted(x['name'] for x in d.providers.values()) + ['nope']
            p = '/resource_providers?name=' + draw(st.sampled_from(names))
        else:
            p = '/resource_providers?%s=%s' % (f, u)
    elif kind == 'inv':
        p = '/resource_providers/%s/inventories' % u
    elif kind == 'inv1':
        p = '/resource_providers/%s/inventories/%s' % (
            u, draw(st.sampled_from(gen.CLASSES)))
    elif kind == 'usages':
        p = '/resource_providers/%s/usages' % u
    elif kind == 'aggs':
        p = '/resource_providers/%s/aggregates' % u
    elif kind == 'traits':
        p = '/resource_providers/%s/traits' % u
    elif kind == 'rp_allocs':
        p = '/resource_providers/%s/allocations' % u
    elif kind == 'allocs':
        p = '/allocations/' + c
    elif kind == 'all_traits':
        p = '/traits' + draw(st.sampled_from(
            ['?name=startswith:CUSTOM_PV', '?associated=true',
             '?associated=false&name=startswith:CUSTOM_',
             '?name=in:CUSTOM_PV_T,HW_CPU_X86_AVX2,CUSTOM_PV_NOPE',
             '?associated=true&name=startswith:HW_']))
    elif kind == 'trait1':
        p = '/traits/' + draw(st.sampled_from(
            ['CUSTOM_PV_T', 'CUSTOM_PV_U', 'HW_CPU_X86_AVX2',
             'CUSTOM_PV_NOPE']))
    elif kind == 'classes':
        p = '/resource_classes'
    elif kind == 'class1':
        p = '/resource_classes/' + draw(st.sampled_from(
            ['CUSTOM_PV_A', 'CUSTOM_PV_B', 'VCPU', 'CUSTOM_PV_NOPE']))
    else:
        p = '/usages?project_id=' + draw(st.sampled_from(
            gen.PROJECTS + ['proj-none']))
        if draw(st.booleans()):
            p += '&user_id=' + draw(st.sampled_from(gen.USERS))
        if v >= (1, 38) and draw(st.integers(0, 2)) > 0:
            p += '&consumer_type=' + draw(st.sampled_from(
                ['all', 'unknown', 'INSTANCE', 'MIGRATION']))
    return gen.R('GET', p, v, None, 'read', [kind])


def compare_read(req, resp, d):
    want_status, want = model.view(d, req)
    if want_status is None:
        return False
    if resp.status != want_status:
        fail('read-status-not-prescribed',
             {'path': req['p'], 'version': req['v'], 'got': resp.status,
              'want': want_status}, view=req['labels'][0])
    if want is None or resp.status >= 300:
        return True
    if resp.json is None:
        fail('read-body-not-json', {'path': req['p']},
             view=req['labels'][0])
    got = model.norm_read(req, resp.json)
    if isinstance(got, dict) and '_dups' in got:
        if got.pop('_dups'):
            fail('read-lists-entity-twice', {'path': req['p']},
                 view=req['labels'][0])
    if req['labels'][0] == 'inv1' and \
            want.get('resource_provider_generation') == 0:
        want.pop('resource_provider_generation')
        got.pop('resource_provider_generation', None)
    if got != want:
        fail('read-differs-from-state',
             {'path': req['p'], 'version': req['v'],
              'got': json.loads(json.dumps(got))
              if len(json.dumps(got)) < 1500 else '(large)',
              'want': json.loads(json.dumps(want))
              if len(json.dumps(want)) < 1500 else '(large)'},
             view=req['labels'][0])
    return True


def check_write_body(req, resp, pred, after):
    """A write response that carries a representation shows the new state."""
    j = resp.json
    want = pred.body
    if want is None or not isinstance(j, dict):
        return
    op = req['op']
    if op in ('create_rp', 'update_rp'):
        got = {k: j.get(k) for k in want}
        if got != want and not (op == 'update_rp' and False):
            fail('write-response-differs-from-model',
                 {'got': got, 'want': want})
        if j.get('generation') != after.providers[j['uuid']]['generation']:
            fail('write-response-generation-differs-from-stored',
                 {'got': j.get('generation')})
    elif op == 'put_inventories':
        if j.get('inventories') != want['inventories']:
            fail('write-response-differs-from-model',
                 {'got': j.get('inventories'), 'want': want['inventories']})
    elif op in ('post_inventory', 'put_inventory'):
        got = {k: j.get(k) for k in want}
        if got != want:
            fail('write-response-differs-from-model',
                 {'got': got, 'want': want})
    elif op == 'put_rp_traits':
        if sorted(j.get('traits', [])) != want['traits']:
            fail('write-response-differs-from-model',
                 {'got': j.get('traits'), 'want': want['traits']})
    elif op == 'put_rp_aggregates':
        if sorted(j.get('aggregates', [])) != want['aggregates']:
            fail('write-response-differs-from-model',
                 {'got': j.get('aggregates'), 'want': want['aggregates']})


def b_sweep(draw, d, prof):
    v = gen.biased_version(draw, 12, 39, (28, 38))
    return gen.R('SWEEP', 'all-views', v, None, 'sweep', [])


def c11_oracle(m, req, resp, before, after):
    stats = m.rec.ctx.stats
    if req['m'] == 'SWEEP':
        sweep(m, req)
        return
    if req['m'] == 'GET':
        if diff(before, after):
            fail('read-changed-state', {'diff': diff(before, after)[:6]})
        if compare_read(req, resp, before):
            stats.count('read judged: %s' % req['labels'][0])
        return
    pred = model.predict(before, req, m.svc.conf.placement)
    if pred is None:
        stats.count('write not modelled: %s' % req['op'])
        return
    if resp.status not in pred.statuses:
        fail('status-not-prescribed',
             {'got': resp.status, 'code': resp.code(),
              'model_allows': sorted(pred.statuses),
              'detail': (resp.detail() or '')[:300]},
             want=sorted(pred.statuses))
    if resp.ok:
        if pred.after is not None:
            df = model.state_diff(pred.after.as_dict(), model.actual(after))
            if df:
                fail('state-differs-from-model', {'diff': df[:10]},
                     table=df[0].split('[')[0].split(':')[0])
        check_write_body(req, resp, pred, after)
        m.memo['writes'] = m.memo.get('writes', 0) + 1
    else:
        df = diff(before, after)
        if df:
            fail('refused-request-changed-state', {'diff': df[:10]})
        if pred.errors:
            stats.count('refusal derived from state: %s' % req['op'])


# ------------------------------------------------------------- read sweep
def sweep(m, sreq):
    d = m.d
    stats = m.rec.ctx.stats
    v = gen.vt(sreq['v'])
    vs = sreq['v']

    def get(path):
        r = m.svc.request('GET', path, version=vs)
        stats.evaluations += 1
        req = gen.R('GET', path, v, None, 'read', ['sweep'])
        compare_read(req, r, d)
        return r.json

    by_consumer = {}
    everyone = sorted(set(gen.CONS) | set(d.consumers))
    for c in everyone:
        j = get('/allocations/' + c)
        for rp, x in j['allocations'].items():
            for rc, a in x['resources'].items():
                by_consumer[(c, rp, rc)] = a
    by_provider = {}
    usage_sum = {}
    for u in sorted(d.providers):
        j = get('/resource_providers/%s/allocations' % u)
        for c, x in j['allocations'].items():
            for rc, a in x['resources'].items():
                by_provider[(c, u, rc)] = a
        ju = get('/resource_providers/%s/usages' % u)
        for rc, used in ju['usages'].items():
            want = sum(a for (c, rp, k), a in by_consumer.items()
                       if rp == u and k == rc)
            if used != want:
                fail('provider-usage-differs-from-sum-of-allocations',
                     {'provider': u, 'class': rc, 'usage': used,
                      'sum': want}, op='sweep')
            usage_sum[(u, rc)] = used
        get('/resource_providers/%s/inventories' % u)
        get('/resource_providers/' + u)
    if by_provider != by_consumer:
        fail('per-provider-and-per-consumer-allocations-disagree',
             {'only_by_provider': sorted(set(by_provider.items()) -
                                         set(by_consumer.items()))[:5],
              'only_by_consumer': sorted(set(by_consumer.items()) -
                                         set(by_provider.items()))[:5]},
             op='sweep')
    if v >= (1, 12):
        owners = {}
        for c in everyone:
            r = m.svc.request('GET', '/allocations/' + c, version=vs)
            if r.json and r.json.get('allocations'):
                owners[c] = (r.json['project_id'], r.json['user_id'])
        for proj in gen.PROJECTS:
            j = get('/usages?project_id=' + proj)
            tot = {}
            for (c, rp, rc), a in by_consumer.items():
                if owners.get(c, (None,))[0] == proj:
                    tot[rc] = tot.get(rc, 0) + a
            got = {}
            if v >= (1, 38):
                for grp in j['usages'].values():
                    for rc, a in grp.items():
                        if rc != 'consumer_count':
                            got[rc] = got.get(rc, 0) + a
            else:
                got = j['usages']
            if got != tot:
                fail('project-usages-differ-from-sum-of-allocations',
                     {'project': proj, 'usages': got, 'sum': tot},
                     op='sweep')
    stats.count('read sweeps')


def nontrivial(m, req, resp, before, after):
    if req['m'] in ('GET', 'SWEEP'):
        return m.memo.get('writes', 0) >= 1
    if resp.ok:
        return True
    pred = model.predict(before, req, m.svc.conf.placement)
    return bool(pred and pred.errors and 'bad-schema' not in req['labels'])


PROFILE = machine.Profile(
    'c11', 'C11',
    ops=C.BUILD + C.TRAITAGG * 4 + C.ALLOC * 2 + C.DELETE + C.NAMES +
    C.STRUCT * 2 + [(14, 'read11'), (4, 'sweep')],
    oracles=[c11_oracle], nontrivial=nontrivial, steps=40,
    boundaries=BOUNDS, defect_rate=3,
    builders={'read11': b_read, 'sweep': b_sweep}, rich_start=6)

ASSUMPTIONS = C.ASSUMPTIONS + [
    'trusted: pv/model.py, a reference model transcribed from the API '
    'reference and version history; where those leave the choice of error '
    'status open the model accepts each documented one (commented in place)',
    'provider and consumer generation *values* are read from the raw rows; '
    'their evolution is the subject of C10']

C.standard_module(globals(), 'C11', PROFILE, 25, 400)
