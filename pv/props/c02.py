"""C02 - every allocation candidate can be claimed exactly as returned."""
import itertools

from hypothesis import strategies as st

from pv import acref, bgen, engb
from pv.dump import dump
from pv.props import common as C
from pv.runner import Violation, stable_hash

LEVEL = 'exploration'
ASSUMPTIONS = C.ASSUMPTIONS
RULE = ('Hypothesis-generated (state, query, microversion 1.10-1.39) triples '
        'as for C03 with partially used inventories and groups whose resource '
        'classes overlap. For each returned allocation request (<= 12 sampled '
        'by Hypothesis): (1) shape - providers exist; with mappings each '
        'suffixed group maps to one provider, every class of the unsuffixed '
        'group sits in full on one provider of its mapping and every '
        '(provider, class) amount equals the sum over the groups placed '
        'there; without mappings some assignment of groups to providers '
        'explains the entry; per class sum placed == sum requested; (2) '
        'claimability - snapshot restored, entry sent unchanged as PUT '
        '/allocations/{new consumer} at the same microversion must be 204 and '
        'store exactly those rows; (3) provider_summaries capacity/used/'
        'traits/parent/root equal the values derived from the raw dump. '
        'Non-trivial = result non-empty and (two groups share a (provider, '
        'class) in some entry, or some provider has usage, or the entry spans '
        '>= 2 providers); distinct = distinct (state, query).')
NEW_CONSUMER = 'c00000ff-2222-4222-8222-0000000000ff'


def entry_items(ar):
    al = ar['allocations']
    out = {}
    if isinstance(al, list):
        for e in al:
            for rc, amt in e['resources'].items():
                out[(e['resource_provider']['uuid'], rc)] = amt
    else:
        for rp, x in al.items():
            for rc, amt in x['resources'].items():
                out[(rp, rc)] = amt
    return out


def explained(items, q, mappings):
    """Is there an assignment of groups to providers that yields exactly
    `items`?  Returns (ok, shares_pair)."""
    provs = sorted({p for (p, _rc) in items})
    groups = list(q.groups.values())
    choices = []
    for g in groups:
        if g.suffix:
            if mappings is not None:
                m = mappings.get(g.suffix)
                if m is None or len(m) != 1:
                    return False, False
                cands = list(m)
            else:
                cands = provs if g.resources else [None]
            choices.append([('S', g, p) for p in cands])
        else:
            rcs = sorted(g.resources)
            pool = sorted(mappings['']) if (mappings is not None and
                                            '' in mappings) else provs
            if mappings is not None and '' not in mappings:
                return False, False
            choices.append([('U', g, dict(zip(rcs, pick)))
                            for pick in itertools.product(pool,
                                                          repeat=len(rcs))])
    for combo in itertools.product(*choices):
        total = {}
        shares = False
        for kind, g, where in combo:
            if kind == 'S':
                for rc, amt in g.resources.items():
                    if (where, rc) in total:
                        shares = True
                    total[(where, rc)] = total.get((where, rc), 0) + amt
            else:
                for rc, amt in g.resources.items():
                    k = (where[rc], rc)
                    if k in total:
                        shares = True
                    total[k] = total.get(k, 0) + amt
                if mappings is not None and \
                        set(where.values()) != set(mappings['']):
                    total = None
                    break
        if total == items:
            return True, shares
    return False, False


def claim_body(ar, version):
    body = dict(ar)
    if version >= 8:
        body['project_id'] = 'proj-claim'
        body['user_id'] = 'user-claim'
    if version >= 28:
        body['consumer_generation'] = None
    if version >= 38:
        body['consumer_type'] = 'INSTANCE'
    return body


def check(ctx, svc, d, q, version, qs, desc, snap, picks=None, draw=None):
    r = svc.request('GET', '/allocation_candidates?' + qs,
                    version='1.%d' % version)
    stats = ctx.stats
    case = {'query': q.to_json(), 'version': version, 'qs': qs}
    if r.status != 200:
        stats.excluded['status %d (C03/C15 territory)' % r.status] = \
            stats.excluded.get('status %d (C03/C15 territory)' % r.status,
                               0) + 1
        return
    body = r.json
    ars = body['allocation_requests']
    requested = set()
    for g in q.groups.values():
        requested |= set(g.resources)
    want_per_class = {}
    for g in q.groups.values():
        for rc, amt in g.resources.items():
            want_per_class[rc] = want_per_class.get(rc, 0) + amt
    engb.summaries_check(d, body, version, requested, case)
    stats.count('entries %s' % ('0' if not ars else '1-3' if len(ars) <= 3
                                else '4+'))
    if not ars:
        stats.evaluations += 1
        return
    idxs = list(range(len(ars)))
    if picks is not None:
        idxs = [i for i in picks if i < len(ars)]
    elif len(idxs) > 12 and draw is not None:
        idxs = draw(st.lists(st.sampled_from(idxs), min_size=12, max_size=12,
                             unique=True))
    case['picks'] = idxs
    w_usage = bool(d.allocations)
    nontrivial = False
    for i in idxs:
        ar = ars[i]
        stats.evaluations += 1
        items = entry_items(ar)
        for (p, rc) in items:
            if p not in d.providers:
                raise Violation({'clause': 'entry-names-unknown-provider'},
                                {'case': case, 'entry': ar})
        per_class = {}
        for (p, rc), amt in items.items():
            per_class[rc] = per_class.get(rc, 0) + amt
        if per_class != want_per_class:
            raise Violation({'clause': 'per-class-sum-differs-from-request'},
                            {'case': case, 'entry': ar,
                             'requested': want_per_class})
        mappings = None
        if version >= 34:
            if 'mappings' not in ar:
                raise Violation({'clause': 'mappings-missing'},
                                {'case': case, 'entry': ar})
            mappings = {s: set(v) for s, v in ar['mappings'].items()}
            if set(mappings) != set(q.groups):
                raise Violation({'clause': 'mappings-keys-differ-from-groups'},
                                {'case': case, 'entry': ar})
            for s, v in mappings.items():
                for u in v:
                    if u not in d.providers:
                        raise Violation(
                            {'clause': 'mapping-names-unknown-provider'},
                            {'case': case, 'entry': ar})
        elif 'mappings' in ar:
            raise Violation({'clause': 'mappings-before-1.34'},
                            {'case': case, 'entry': ar})
        ok, shares = explained(items, q, mappings)
        if not ok:
            raise Violation({'clause': 'entry-not-explained-by-groups'},
                            {'case': case, 'entry': ar})
        # claimability
        svc.restore(snap)
        cb = claim_body(ar, version)
        pr = svc.request('PUT', '/allocations/' + NEW_CONSUMER,
                         version='1.%d' % version, body=cb)
        if pr.status != 204:
            svc.restore(snap)
            raise Violation({'clause': 'entry-not-claimable',
                             'status': pr.status},
                            {'case': case, 'entry': ar, 'claim_body': cb,
                             'response': pr.json})
        after = dump(svc.dbpath)
        got = {(p, rc): a for (c, p, rc), a in after.allocations.items()
               if c == NEW_CONSUMER}
        svc.restore(snap)
        if got != items:
            raise Violation({'clause': 'claimed-rows-differ-from-entry'},
                            {'case': case, 'entry': ar,
                             'stored': sorted(got.items())})
        if shares or w_usage or len({p for (p, _rc) in items}) >= 2:
            nontrivial = True
        if shares:
            stats.count('entry with shared (provider, class)')
    if nontrivial:
        stats.nontriv(stable_hash([desc, case['query'], version]))
        if len(stats.samples) < stats.MAX_SAMPLES:
            stats.sample({'version': '1.%d' % version, 'query': qs,
                          'entries': len(ars), 'claimed': len(idxs),
                          'first_entry': ars[0]})


def case_fn(ctx, svc, d, draw, desc, snap):
    version = draw(st.sampled_from(
        [39, 39, 38, 37, 36, 35, 34, 34, 33, 31, 29, 28, 27, 26, 25, 17, 16,
         13, 12, 11, 10]))
    q = draw(bgen.queries(d, version))
    qs = q.render(version, draw)
    check(ctx, svc, d, q, version, qs, desc, snap, draw=draw)


def replay_case(ctx, svc, d, case, desc):
    q = acref.Query.from_json(case['query'])
    snap = svc.snapshot()
    check(ctx, svc, d, q, case['version'], case['qs'], desc, snap,
          picks=case.get('picks'))


def run_worker(ctx):
    engb.run_cases(ctx, case_fn, examples=ctx.pick(25, 300),
                   queries_per_state=ctx.pick(8, 12))


def replay(ctx, data):
    import sys
    return engb.replay_case(ctx, sys.modules[__name__], data)
