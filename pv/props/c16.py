"""C16 - every operation is authenticated and authorised before it has any effect."""
import json
import os
import tempfile

from pv import faults, gen, machine
from pv.dump import diff, dump
from pv.props import c14
from pv.runner import Violation, stable_hash

LEVEL = 'exploration'
EXHAUSTIVE = True
ASSUMPTIONS = [
    'caller classes are produced with the noauth2 middleware (X-Auth-Token '
    'user:project, X-Roles), i.e. keystone token validation itself is not '
    'exercised (no keystone offline); the keystone strategy is only used for '
    'the no-credentials row',
    'the expected answers are hard-coded from the property statement and a '
    'hand-transcribed rule -> operations table, not read from '
    'placement.policies',
    'policy overrides are applied through a policy_file and a re-initialised '
    'enforcer, the way an operator would']
RULE = ('Exhaustive enumeration: every (route, method) of the API x caller '
        'class {no credentials, authenticated without roles, reader of the '
        'project, reader of another project, member, admin, service} x '
        '{request on existing entities that succeeds for an authorised '
        'caller, request naming missing entities} on a populated fixture at '
        'microversion 1.39; the unauthorised callers again at 22 further '
        'microversions on both sides of every handler window (and without a '
        'version header) with the body that version documents; plus for '
        'every documented policy rule two '
        're-loaded configurations (rule: "!" and rule: "@") in which every '
        'operation is tried by the admin resp. a role-less caller; plus four '
        'overrides of the base rule admin_api, which is the documented rule '
        'of no operation and must therefore change nothing; plus request '
        'pairs in one process (a role-less caller right after an '
        'administrator, identified by name only) and policy files edited '
        'while the service runs (a removed override stops applying); plus the '
        'no-credentials row under auth_strategy=keystone. Oracle: / is open; '
        'no credentials => 401; callers outside {admin, service} (reshaper: '
        '{service}; GET /usages: also reader of the queried project) never '
        'get 2xx, get 403 unless the same request by an authorised caller is '
        'answered 404/405/406/415, the body contains no stored UUID or name '
        'the caller did not send, and the raw dump is unchanged; under "!" '
        'exactly the operations documented for the rule are refused, under '
        '"@" exactly those are opened. Non-trivial = a cell whose expected '
        'answer differs from the admin\'s; distinct = distinct (operation, '
        'caller, variant, configuration).')

P1, P2, C1, C2, AGG = c14.P1, c14.P2, c14.C1, c14.C2, c14.AGG
GHOST = gen.GHOST_RP
V = '1.39'

# (method, route, path on existing entities, body, path on missing entities)
OPS = [
    ('GET', '/resource_classes', '/resource_classes', None, None),
    ('POST', '/resource_classes', '/resource_classes',
     {'name': 'CUSTOM_PV_NEW'}, None),
    ('GET', '/resource_classes/{name}', '/resource_classes/CUSTOM_PV_A', None,
     '/resource_classes/CUSTOM_PV_MISSING'),
    ('PUT', '/resource_classes/{name}', '/resource_classes/CUSTOM_PV_NEW2',
     None, None),
    ('DELETE', '/resource_classes/{name}', '/resource_classes/CUSTOM_PV_T2',
     None, '/resource_classes/CUSTOM_PV_MISSING'),
    ('GET', '/resource_providers', '/resource_providers', None, None),
    ('POST', '/resource_providers', '/resource_providers',
     {'name': 'newp', 'uuid': gen.PROV[5]}, None),
    ('GET', '/resource_providers/{uuid}', '/resource_providers/' + P1, None,
     '/resource_providers/' + GHOST),
    ('PUT', '/resource_providers/{uuid}', '/resource_providers/' + P2,
     {'name': 'renamed'}, '/resource_providers/' + GHOST),
    ('DELETE', '/resource_providers/{uuid}', '/resource_providers/' + P2,
     None, '/resource_providers/' + GHOST),
    ('GET', '/resource_providers/{uuid}/inventories',
     '/resource_providers/%s/inventories' % P1, None,
     '/resource_providers/%s/inventories' % GHOST),
    ('POST', '/resource_providers/{uuid}/inventories',
     '/resource_providers/%s/inventories' % P2,
     {'resource_class': 'VCPU', 'total': 3},
     '/resource_providers/%s/inventories' % GHOST),
    ('PUT', '/resource_providers/{uuid}/inventories',
     '/resource_providers/%s/inventories' % P2,
     {'resource_provider_generation': 1,
      'inventories': {'CUSTOM_PV_A': {'total': 5}}},
     '/resource_providers/%s/inventories' % GHOST),
    ('DELETE', '/resource_providers/{uuid}/inventories',
     '/resource_providers/%s/inventories' % P2, None,
     '/resource_providers/%s/inventories' % GHOST),
    ('GET', '/resource_providers/{uuid}/inventories/{resource_class}',
     '/resource_providers/%s/inventories/VCPU' % P1, None,
     '/resource_providers/%s/inventories/VCPU' % GHOST),
    ('PUT', '/resource_providers/{uuid}/inventories/{resource_class}',
     '/resource_providers/%s/inventories/CUSTOM_PV_A' % P2,
     {'resource_provider_generation': 1, 'total': 6},
     '/resource_providers/%s/inventories/VCPU' % GHOST),
    ('DELETE', '/resource_providers/{uuid}/inventories/{resource_class}',
     '/resource_providers/%s/inventories/CUSTOM_PV_A' % P2, None,
     '/resource_providers/%s/inventories/VCPU' % GHOST),
    ('GET', '/resource_providers/{uuid}/usages',
     '/resource_providers/%s/usages' % P1, None,
     '/resource_providers/%s/usages' % GHOST),
    ('GET', '/resource_providers/{uuid}/aggregates',
     '/resource_providers/%s/aggregates' % P1, None,
     '/resource_providers/%s/aggregates' % GHOST),
    ('PUT', '/resource_providers/{uuid}/aggregates',
     '/resource_providers/%s/aggregates' % P1,
     {'resource_provider_generation': 4, 'aggregates': [gen.AGGS[1]]},
     '/resource_providers/%s/aggregates' % GHOST),
    ('GET', '/resource_providers/{uuid}/allocations',
     '/resource_providers/%s/allocations' % P1, None,
     '/resource_providers/%s/allocations' % GHOST),
    ('POST', '/allocations', '/allocations',
     c14.post_alloc_body(39, {C2: {P1: {'VCPU': 1}}}), None),
    ('GET', '/allocations/{consumer_uuid}', '/allocations/' + C1, None,
     '/allocations/' + gen.CONS[4]),
    ('PUT', '/allocations/{consumer_uuid}', '/allocations/' + C2,
     c14.alloc_body(39, {P1: {'VCPU': 2}}), None),
    ('DELETE', '/allocations/{consumer_uuid}', '/allocations/' + C1, None,
     '/allocations/' + gen.CONS[4]),
    ('GET', '/allocation_candidates',
     '/allocation_candidates?resources=VCPU:1', None, None),
    ('GET', '/traits', '/traits', None, None),
    ('GET', '/traits/{name}', '/traits/CUSTOM_PV_T', None,
     '/traits/CUSTOM_PV_MISSING'),
    ('PUT', '/traits/{name}', '/traits/CUSTOM_PV_NEWT', None, None),
    ('DELETE', '/traits/{name}', '/traits/CUSTOM_PV_T', None,
     '/traits/CUSTOM_PV_MISSING'),
    ('GET', '/resource_providers/{uuid}/traits',
     '/resource_providers/%s/traits' % P1, None,
     '/resource_providers/%s/traits' % GHOST),
    ('PUT', '/resource_providers/{uuid}/traits',
     '/resource_providers/%s/traits' % P1,
     {'resource_provider_generation': 4, 'traits': [c14.SSD]},
     '/resource_providers/%s/traits' % GHOST),
    ('DELETE', '/resource_providers/{uuid}/traits',
     '/resource_providers/%s/traits' % P1, None,
     '/resource_providers/%s/traits' % GHOST),
    ('GET', '/usages', '/usages?project_id=proj-a', None, None),
    ('POST', '/reshaper', '/reshaper',
     {'inventories': {P2: {'resource_provider_generation': 1,
                           'inventories': {'CUSTOM_PV_A': {'total': 9}}}},
      'allocations': {}}, None),
]

BASE_OPS = list(OPS)

# further bodies for operations already listed above: writes whose *meaning*
# is a removal (clearing PUT/POST, empty replacement) are still governed by
# the rule documented for their route, not by the delete rule
OPS += [
    ('PUT', '/allocations/{consumer_uuid}', '/allocations/' + C1,
     {'allocations': {}, 'project_id': 'proj-a', 'user_id': 'user-a',
      'consumer_generation': 1, 'consumer_type': 'INSTANCE'}, None),
    ('PUT', '/allocations/{consumer_uuid}', '/allocations/' + gen.CONS[3],
     {'allocations': {}, 'project_id': 'proj-a', 'user_id': 'user-a',
      'consumer_generation': None, 'consumer_type': 'INSTANCE'}, None),
    ('POST', '/allocations', '/allocations',
     {C1: {'allocations': {}, 'project_id': 'proj-a', 'user_id': 'user-a',
           'consumer_generation': 1, 'consumer_type': 'INSTANCE'}}, None),
    ('PUT', '/resource_providers/{uuid}/inventories',
     '/resource_providers/%s/inventories' % P2,
     {'resource_provider_generation': 1, 'inventories': {}}, None),
    ('PUT', '/resource_providers/{uuid}/traits',
     '/resource_providers/%s/traits' % P1,
     {'resource_provider_generation': 4, 'traits': []}, None),
    ('PUT', '/resource_providers/{uuid}/aggregates',
     '/resource_providers/%s/aggregates' % P1,
     {'resource_provider_generation': 4, 'aggregates': []}, None),
    # idempotent PUTs naming something that already exists (answered 204 to
    # an authorised caller): still an update operation
    ('PUT', '/traits/{name}', '/traits/CUSTOM_PV_T', None, None),
    ('PUT', '/traits/{name}', '/traits/HW_CPU_X86_AVX2', None, None),
    ('PUT', '/resource_classes/{name}', '/resource_classes/CUSTOM_PV_A',
     None, None),
    ('PUT', '/resource_providers/{uuid}', '/resource_providers/' + P2,
     {'name': 'pv-fix-two'}, None),
    ('PUT', '/resource_providers/{uuid}/traits',
     '/resource_providers/%s/traits' % P1,
     {'resource_provider_generation': 4, 'traits': [c14.AVX]}, None),
    ('POST', '/resource_classes', '/resource_classes',
     {'name': 'CUSTOM_PV_A'}, None),
    ('POST', '/resource_providers', '/resource_providers',
     {'name': 'pv-fix-one', 'uuid': P1}, None),
]

# rule -> documented operations, transcribed from the policy reference
RULES = {
    'placement:resource_providers:list': [('GET', '/resource_providers')],
    'placement:resource_providers:create': [('POST', '/resource_providers')],
    'placement:resource_providers:show':
        [('GET', '/resource_providers/{uuid}')],
    'placement:resource_providers:update':
        [('PUT', '/resource_providers/{uuid}')],
    'placement:resource_providers:delete':
        [('DELETE', '/resource_providers/{uuid}')],
    'placement:resource_classes:list': [('GET', '/resource_classes')],
    'placement:resource_classes:create': [('POST', '/resource_classes')],
    'placement:resource_classes:show': [('GET', '/resource_classes/{name}')],
    'placement:resource_classes:update': [('PUT', '/resource_classes/{name}')],
    'placement:resource_classes:delete':
        [('DELETE', '/resource_classes/{name}')],
    'placement:resource_providers:inventories:list':
        [('GET', '/resource_providers/{uuid}/inventories')],
    'placement:resource_providers:inventories:create':
        [('POST', '/resource_providers/{uuid}/inventories')],
    'placement:resource_providers:inventories:show':
        [('GET', '/resource_providers/{uuid}/inventories/{resource_class}')],
    'placement:resource_providers:inventories:update':
        [('PUT', '/resource_providers/{uuid}/inventories'),
         ('PUT', '/resource_providers/{uuid}/inventories/{resource_class}')],
    'placement:resource_providers:inventories:delete':
        [('DELETE', '/resource_providers/{uuid}/inventories'),
         ('DELETE',
          '/resource_providers/{uuid}/inventories/{resource_class}')],
    'placement:resource_providers:aggregates:list':
        [('GET', '/resource_providers/{uuid}/aggregates')],
    'placement:resource_providers:aggregates:update':
        [('PUT', '/resource_providers/{uuid}/aggregates')],
    'placement:resource_providers:usages':
        [('GET', '/resource_providers/{uuid}/usages')],
    'placement:usages': [('GET', '/usages')],
    'placement:traits:list': [('GET', '/traits')],
    'placement:traits:show': [('GET', '/traits/{name}')],
    'placement:traits:update': [('PUT', '/traits/{name}')],
    'placement:traits:delete': [('DELETE', '/traits/{name}')],
    'placement:resource_providers:traits:list':
        [('GET', '/resource_providers/{uuid}/traits')],
    'placement:resource_providers:traits:update':
        [('PUT', '/resource_providers/{uuid}/traits')],
    'placement:resource_providers:traits:delete':
        [('DELETE', '/resource_providers/{uuid}/traits')],
    'placement:allocations:manage': [('POST', '/allocations')],
    'placement:allocations:list': [('GET', '/allocations/{consumer_uuid}')],
    'placement:allocations:update': [('PUT', '/allocations/{consumer_uuid}')],
    'placement:allocations:delete':
        [('DELETE', '/allocations/{consumer_uuid}')],
    'placement:resource_providers:allocations:list':
        [('GET', '/resource_providers/{uuid}/allocations')],
    'placement:allocation_candidates:list':
        [('GET', '/allocation_candidates')],
    'placement:reshaper:reshape': [('POST', '/reshaper')],
}

CALLERS = {
    'none': dict(token=None),
    'no-roles': dict(token='u1:proj-a', roles=[]),
    'reader-own': dict(token='u2:proj-a', roles=['reader']),
    'reader-other': dict(token='u3:proj-z', roles=['reader']),
    'member': dict(token='u4:proj-a', roles=['member', 'reader']),
    'admin': dict(token='admin:proj-adm', roles=['admin']),
    'service': dict(token='svc:proj-svc', roles=['service']),
    # callers that send no X-Roles header at all: the noauth2 middleware
    # derives the roles from the user name (only the user "admin" gets one)
    'admin-by-name': dict(token='admin', roles=None),
    'user-by-name': dict(token='u9:proj-a', roles=None),
}
MATRIX_CALLERS = ['none', 'no-roles', 'reader-own', 'reader-other', 'member',
                  'admin', 'service']
SECRETS = [P1, P2, C1, AGG, 'pv-fix-one', 'pv-fix-two', 'proj-a', 'user-a']


def allowed(method, route, caller):
    if caller == 'none':
        return False
    if route == '/reshaper':
        return caller == 'service'
    if route == '/usages':
        return caller in ('admin', 'service', 'reader-own', 'member',
                          'admin-by-name')
    return caller in ('admin', 'service', 'admin-by-name')


def i_ver_op(ver, m, route):
    return int(stable_hash([ver, m, route]), 16)


def authorised_caller(route):
    return 'service' if route == '/reshaper' else 'admin'


def fixture(svc):
    snap = c14.build_fixture(svc)
    svc.restore(snap)
    r = svc.request('PUT', '/resource_classes/CUSTOM_PV_T2', version=V)
    assert r.status == 201
    for u, name in ((P1, 'pv-fix-one'), (P2, 'pv-fix-two')):
        r = svc.request('PUT', '/resource_providers/' + u, version=V,
                        body={'name': name})
        assert r.status == 200, r.body
    return svc.snapshot()


def send(svc, app, method, path, body, caller, version=V):
    kw = dict(CALLERS[caller])
    return svc.request(method, path, version=version, body=body, app=app,
                       **kw)


# microversions on both sides of every handler window (a handler variant per
# window has its own authorisation call), plus no header and "latest"
SWEEP_VERSIONS = ['1.0', '1.1', '1.2', '1.5', '1.6', '1.7', '1.8', '1.11',
                  '1.12', '1.13', '1.18', '1.19', '1.20', '1.27', '1.28',
                  '1.29', '1.30', '1.33', '1.34', '1.37', '1.38', None,
                  'latest']
SWEEP_CALLERS = ['none', 'no-roles', 'reader-other', 'member']


def leaks(resp, method, path, body):
    sent = path + json.dumps(body or {})
    text = resp.body.decode('utf-8', 'replace')
    return [s for s in SECRETS if s in text and s not in sent]


def run_worker(ctx):
    svc = machine.service()
    snap = fixture(svc)
    before = dump_of(svc, snap)
    stats = ctx.stats
    inj = faults.Injector.get(svc)
    fails = {}

    def record(v, replay):
        sig = dict(v.signature)
        sig.setdefault('prop', ctx.prop)
        known = ctx.known.match(sig)
        if known is not None:
            stats.known[known['id']] = stats.known.get(known['id'], 0) + 1
            return
        key = json.dumps(sig, sort_keys=True, default=str)
        fails.setdefault(key, {'signature': sig, 'detail': v.detail,
                               'replay': replay})

    # ---------------------------------------------------- default policy
    cells = []
    for (m, route, path, body, missing) in OPS:
        for caller in MATRIX_CALLERS:
            cells.append((m, route, path, body, caller, 'existing'))
            if missing:
                cells.append((m, route, missing, body, caller, 'missing'))
    for i, (m, route, path, body, caller, variant) in enumerate(cells):
        if i % ctx.nworkers != ctx.idx:
            continue
        try:
            check_cell(ctx, svc, None, snap, before, inj, m, route, path,
                       body, caller, variant, 'default')
        except Violation as v:
            record(v, {'kind': 'default', 'method': m, 'route': route,
                       'path': path, 'body': body, 'caller': caller,
                       'variant': variant})
    # ------------------------------- default policy at other microversions
    vcells = []
    sweep_versions = SWEEP_VERSIONS if not ctx.thorough else \
        ['1.%d' % i for i in range(39)] + [None, 'latest']
    for ver in sweep_versions:
        vnum = c14.applied(ver)
        for (m, route, path, body, missing) in BASE_OPS:
            vbody = c14.plausible_body(route, m, vnum) \
                if m in ('PUT', 'POST') else None
            if route == '/allocations/{consumer_uuid}' and m == 'PUT':
                vbody = c14.alloc_body(vnum, {P1: {'VCPU': 2}})
            if route == '/resource_classes/{name}' and m == 'PUT' \
                    and vnum < 7:
                # below 1.7 this is a rename: it needs an existing class
                path = '/resource_classes/CUSTOM_PV_T2'
            if (i_ver_op(ver, m, route)) % ctx.nworkers == ctx.idx:
                # is the cell meaningful?  the authorised caller should get
                # 2xx wherever the operation exists at this version
                svc.restore(snap)
                ra = send(svc, None, m, path, vbody,
                          authorised_caller(route), ver)
                stats.evaluations += 1
                stats.count('sweep: authorised caller -> %s' % (
                    '2xx' if ra.ok else ra.status))
                if not ra.ok and ra.status not in (404, 405) and \
                        len(stats.notes) < 40:
                    stats.notes.append(
                        'sweep request not 2xx for authorised caller: %s %s '
                        '@%s -> %d' % (m, route, ver, ra.status))
            for caller in SWEEP_CALLERS:
                vcells.append((m, route, path, vbody, caller, 'existing',
                               ver))
    for i, (m, route, path, body, caller, variant, ver) in enumerate(vcells):
        if i % ctx.nworkers != ctx.idx:
            continue
        try:
            check_cell(ctx, svc, None, snap, before, inj, m, route, path,
                       body, caller, variant, 'default', version=ver)
        except Violation as v:
            record(v, {'kind': 'default', 'method': m, 'route': route,
                       'path': path, 'body': body, 'caller': caller,
                       'variant': variant, 'version': ver})
    if ctx.idx == 1 % ctx.nworkers:
        # "every route except / answers 401 to a request without
        # credentials" - whatever else is wrong with the request: unsupported
        # or unparsable microversion, unacceptable Accept, wrong content
        # type, malformed body
        odd = [('version 1.99', dict(version='1.99')),
               ('version 2.0', dict(version='2.0')),
               ('version garbage', dict(headers={
                   'OpenStack-API-Version': 'placement x.y'})),
               ('other service only', dict(headers={
                   'OpenStack-API-Version': 'compute 2.1'})),
               ('accept text/plain', dict(version=V, accept='text/plain')),
               ('content-type text/plain', dict(version=V,
                                                content_type='text/plain')),
               ('malformed body', dict(version=V, raw_body=b'{"a":'))]
        for (m, route, path, body, missing) in OPS:
            for label, kw in odd:
                svc.restore(snap)
                kw = dict(kw)
                if 'raw_body' not in kw:
                    kw['body'] = body
                r = svc.request(m, path, token=None, **kw)
                stats.evaluations += 1
                stats.nontriv(stable_hash(['anon-odd', m, route, label]))
                stats.count('no credentials, %s -> %s' % (label, r.status))
                if r.status != 401:
                    record(Violation(
                        {'clause': 'no-credentials-not-401', 'form': label},
                        {'status': r.status, 'method': m, 'route': route}),
                        {'kind': 'anon-odd', 'method': m, 'route': route,
                         'path': path, 'form': label})
                elif diff(before, dump(svc.dbpath)):
                    record(Violation(
                        {'clause': 'unauthenticated-request-changed-state',
                         'form': label}, {'method': m, 'route': route}),
                        {'kind': 'anon-odd', 'method': m, 'route': route,
                         'path': path, 'form': label})
    if ctx.idx == 0:
        # what one request established must not carry over to the next one:
        # a caller without any role right after an administrator, both
        # identified by name only (no X-Roles header)
        for (m, route, path, body, missing) in OPS:
            for first, second in (('admin-by-name', 'user-by-name'),
                                  ('admin', 'user-by-name'),
                                  ('service', 'no-roles')):
                svc.restore(snap)
                send(svc, None, m, path, body, first)
                stats.evaluations += 1
                try:
                    check_cell(ctx, svc, None, snap, before, inj, m, route,
                               path, body, second, 'after-' + first,
                               'default')
                except Violation as v:
                    record(v, {'kind': 'sequence', 'method': m,
                               'route': route, 'first': first,
                               'second': second})
        # the version document is open, even without credentials
        for caller in MATRIX_CALLERS:
            svc.restore(snap)
            r = send(svc, None, 'GET', '/', None, caller)
            stats.evaluations += 1
            if r.status != 200:
                record(Violation({'clause': 'root-not-open',
                                  'caller': caller},
                                 {'status': r.status}), {'kind': 'root'})
    # -------------------------------------------- single-rule overrides
    configs = [(rule, chk) for rule in sorted(RULES) for chk in ('!', '@')]
    available = {}
    tmpdir = tempfile.mkdtemp(prefix='pv-pol-', dir=svc.workdir)
    try:
        for i, (rule, chk) in enumerate(configs):
            if i % ctx.nworkers != ctx.idx:
                continue
            pf = os.path.join(tmpdir, 'policy-%d.yaml' % i)
            with open(pf, 'w') as f:
                f.write('"%s": "%s"\n' % (rule, chk))
            app, _conf = svc.make_app(policy_file=pf)
            caller = 'admin' if chk == '!' else 'no-roles'
            work = [(m, route, path, body, V) for
                    (m, route, path, body, missing) in OPS]
            # the same override at older microversions: every handler window
            # has its own authorisation call and rule constant
            for ver in ctx.pick(['1.18', '1.6'],
                                ['1.37', '1.33', '1.29', '1.27', '1.19',
                                 '1.18', '1.12', '1.11', '1.7', '1.6',
                                 '1.1']):
                vnum = c14.applied(ver)
                for (m, route, path, body, missing) in BASE_OPS:
                    vb = c14.plausible_body(route, m, vnum) \
                        if m in ('PUT', 'POST') else None
                    vp = path
                    if route == '/allocations/{consumer_uuid}' and m == 'PUT':
                        vb = c14.alloc_body(vnum, {P1: {'VCPU': 2}})
                    if route == '/resource_classes/{name}' and m == 'PUT' \
                            and vnum < 7:
                        vp = '/resource_classes/CUSTOM_PV_T2'
                    key = (ver, m, route)
                    if key not in available:
                        svc.restore(snap)
                        ra = send(svc, None, m, vp, vb,
                                  authorised_caller(route), ver)
                        available[key] = ra.status not in (404, 405, 406)
                    if available[key]:
                        work.append((m, route, vp, vb, ver))
            for (m, route, path, body, ver) in work:
                in_rule = (m, route) in RULES[rule]
                if chk == '!':
                    # reshaper is refused to the admin anyway
                    caller = 'service' if route == '/reshaper' else 'admin'
                    expect_allowed = not in_rule
                else:
                    caller = 'no-roles'
                    expect_allowed = in_rule
                svc.restore(snap)
                r = send(svc, app, m, path, body, caller, ver)
                stats.evaluations += 1
                stats.nontriv(stable_hash([rule, chk, m, route, path, body,
                                           ver]))
                ok = r.ok or r.status not in (401, 403)
                try:
                    if expect_allowed and r.status in (401, 403):
                        raise Violation(
                            {'clause': 'override-%s-refused-other-operation'
                             % ('deny' if chk == '!' else 'open')
                             if chk == '!' else
                             'override-open-did-not-open-operation',
                             'rule': rule, 'method': m, 'route': route},
                            {'status': r.status, 'caller': caller,
                             'version': ver})
                    if not expect_allowed and ok:
                        raise Violation(
                            {'clause': 'override-deny-did-not-deny-operation'
                             if chk == '!' else
                             'override-open-opened-other-operation',
                             'rule': rule, 'method': m, 'route': route},
                            {'status': r.status, 'caller': caller})
                    if not expect_allowed:
                        df = diff(before, dump(svc.dbpath))
                        if df:
                            raise Violation(
                                {'clause': 'refused-request-changed-state',
                                 'method': m, 'route': route},
                                {'diff': df[:6], 'config': [rule, chk]})
                except Violation as v:
                    record(v, {'kind': 'override', 'rule': rule,
                               'check': chk, 'method': m, 'route': route})
        # ---- the policy file is edited while the service runs: an override
        # that is removed stops granting / denying (oslo.policy re-reads the
        # file when it changes; no restart involved)
        if ctx.idx == 1 % ctx.nworkers:
            for j, rule in enumerate(sorted(RULES)):
                if j % 4 and not ctx.thorough:
                    continue
                (m, route) = RULES[rule][0]
                op = [o for o in OPS if (o[0], o[1]) == (m, route)][0]
                _m, _r, path, body, _missing = op
                for chk, caller in (('@', 'no-roles'), ('!', 'admin')):
                    if route == '/reshaper' and chk == '!':
                        caller = 'service'
                    pf = os.path.join(tmpdir, 'policy-live-%d.yaml' % j)
                    with open(pf, 'w') as f:
                        f.write('"%s": "%s"\n' % (rule, chk))
                    os.utime(pf, (1000000000 + j, 1000000000 + j))
                    app, _conf = svc.make_app(policy_file=pf)
                    svc.restore(snap)
                    r1 = send(svc, app, m, path, body, caller)
                    with open(pf, 'w') as f:
                        f.write('{}\n')
                    os.utime(pf, (1000000100 + j, 1000000100 + j))
                    svc.restore(snap)
                    r2 = send(svc, app, m, path, body, caller)
                    stats.evaluations += 2
                    stats.nontriv(stable_hash(['live-edit', rule, chk]))
                    granted1 = r1.status not in (401, 403)
                    granted2 = r2.status not in (401, 403)
                    want1, want2 = (chk == '@'), (chk != '@')
                    if (granted1, granted2) != (want1, want2):
                        record(Violation(
                            {'clause': 'override-removed-from-policy-file-'
                                       'still-in-force'
                             if granted1 == want1 else
                             'override-in-policy-file-not-applied',
                             'rule': rule, 'check': chk},
                            {'with_override': r1.status,
                             'after_removal': r2.status, 'caller': caller}),
                            {'kind': 'override', 'rule': rule, 'check': chk,
                             'method': m, 'route': route})
        # ---- overriding a rule that is NOT the documented rule of any
        # operation (the deprecated base rule admin_api, which no documented
        # default refers to) grants and denies nothing
        base_cfgs = [('admin_api', 'role:member'), ('admin_api', '@'),
                     ('admin_api', '!'), ('admin_api', 'role:reader')]
        bcells = [(cfg, op, caller) for cfg in base_cfgs for op in OPS
                  for caller in ('no-roles', 'member', 'reader-other',
                                 'admin', 'service')]
        apps = {}
        for i, ((rule, chk), (m, route, path, body, missing), caller) in \
                enumerate(bcells):
            if i % ctx.nworkers != ctx.idx:
                continue
            if (rule, chk) not in apps:
                pf = os.path.join(tmpdir, 'policy-base-%d.yaml' % len(apps))
                with open(pf, 'w') as f:
                    f.write('"%s": "%s"\n' % (rule, chk))
                apps[(rule, chk)] = svc.make_app(policy_file=pf)[0]
            try:
                check_cell(ctx, svc, apps[(rule, chk)], snap, before, inj, m,
                           route, path, body, caller,
                           'existing|%s=%s' % (rule, chk), 'base-override')
            except Violation as v:
                # one signature per (clause, configuration): the cells are
                # in the detail
                sig = {'clause': v.signature.get('clause'),
                       'config': '%s: %s' % (rule, chk)}
                record(Violation(sig, dict(v.detail or {},
                                           cell_signature=v.signature)),
                       {'kind': 'override', 'rule': rule, 'check': chk,
                        'method': m, 'route': route})
    finally:
        svc.reset_policy()
    # --------------------------------------------------- keystone strategy
    if ctx.idx == 0:
        try:
            app, _conf = svc.make_app(auth='keystone')
        except Exception as e:
            stats.notes.append('keystone pipeline not constructible offline: '
                               '%s' % str(e)[:200])
            app = None
        finally:
            pass
        if app is not None:
            for (m, route, path, body, missing) in OPS:
                svc.restore(snap)
                r = svc.request(m, path, version=V, body=body, token=None,
                                app=app)
                stats.evaluations += 1
                stats.nontriv(stable_hash(['keystone', m, route]))
                if r.status != 401:
                    record(Violation(
                        {'clause': 'keystone-no-credentials-not-401',
                         'method': m, 'route': route},
                        {'status': r.status}), {'kind': 'keystone'})
            r = svc.request('GET', '/', version=V, token=None, app=app)
            if r.status != 200:
                record(Violation({'clause': 'keystone-root-not-open'},
                                 {'status': r.status}), {'kind': 'keystone'})
        svc.reset_policy()
    stats.violations.extend(fails.values())
    if ctx.idx == 0:
        stats.extra['default_policy_cells'] = len(cells)
        stats.extra['default_policy_cells_other_versions'] = len(vcells)
        stats.extra['override_configurations'] = len(configs)
        stats.extra['operations'] = len(OPS)


def dump_of(svc, snap):
    svc.restore(snap)
    return dump(svc.dbpath)


def check_cell(ctx, svc, app, snap, before, inj, m, route, path, body, caller,
               variant, config, version=V):
    stats = ctx.stats
    svc.restore(snap)
    inj.start()
    r = send(svc, app, m, path, body, caller, version)
    nstmt = inj.stop()
    stats.evaluations += 1
    ok_caller = allowed(m, route, caller)
    cell = '%s %s as %s (%s)' % (m, route, caller, variant)
    if version != V:
        cell += ' @%s' % version
        variant = '%s@%s' % (variant, version)
    if r.escaped or r.status >= 500:
        raise Violation({'clause': 'server-error', 'method': m,
                         'route': route, 'caller': caller},
                        {'cell': cell, 'status': r.status, 'body': r.json})
    if caller == 'none':
        stats.nontriv(stable_hash([m, route, path, body, caller, variant]))
        if r.status != 401:
            raise Violation({'clause': 'no-credentials-not-401',
                             'method': m, 'route': route},
                            {'cell': cell, 'status': r.status})
        df = diff(before, dump(svc.dbpath))
        if df:
            raise Violation({'clause': 'unauthenticated-request-changed-'
                                       'state', 'method': m, 'route': route},
                            {'diff': df[:6]})
        return
    if ok_caller:
        if r.status in (401, 403):
            raise Violation({'clause': 'authorised-caller-refused',
                             'method': m, 'route': route, 'caller': caller},
                            {'cell': cell, 'status': r.status,
                             'body': r.json})
        if variant == 'existing' and not r.ok and len(stats.notes) < 20:
            stats.notes.append('fixture request not 2xx for authorised '
                               'caller: %s -> %d' % (cell, r.status))
        return
    stats.nontriv(stable_hash([m, route, path, body, caller, variant]))
    stats.count('statements before refusal: %s' % (
        '0' if nstmt == 0 else '1-5' if nstmt <= 5 else '6+'))
    if len(stats.samples) < stats.MAX_SAMPLES:
        stats.sample({'cell': cell, 'status': r.status,
                      'sql_statements_before_answer': nstmt})
    if r.ok:
        raise Violation({'clause': 'unauthorised-caller-got-success',
                         'method': m, 'route': route, 'caller': caller},
                        {'cell': cell, 'status': r.status})
    after = dump(svc.dbpath)
    df = diff(before, after)
    if df or set(after.projects.values()) != set(before.projects.values()):
        raise Violation({'clause': 'refused-request-changed-state',
                         'method': m, 'route': route},
                        {'cell': cell, 'diff': df[:6]})
    lk = leaks(r, m, path, body)
    if lk:
        raise Violation({'clause': 'refusal-leaks-stored-data',
                         'method': m, 'route': route},
                        {'cell': cell, 'leaked': lk,
                         'body': r.body.decode('utf-8', 'replace')[:300]})
    if r.status != 403:
        # allowed only if every caller gets that answer for this request
        svc.restore(snap)
        ra = send(svc, app, m, path, body, authorised_caller(route),
                  version)
        if not (r.status in (404, 405, 406, 415) and ra.status == r.status):
            raise Violation({'clause': 'unauthorised-caller-not-403',
                             'method': m, 'route': route, 'caller': caller,
                             'status': r.status},
                            {'cell': cell, 'authorised_status': ra.status})


def replay(ctx, data):
    svc = machine.service()
    snap = fixture(svc)
    before = dump_of(svc, snap)
    inj = faults.Injector.get(svc)
    if data['kind'] != 'default':
        print('replay of override/keystone cells: run ./check C16')
        return []
    try:
        check_cell(ctx, svc, None, snap, before, inj, data['method'],
                   data['route'], data['path'], data['body'], data['caller'],
                   data['variant'].split('@')[0], 'default',
                   version=data.get('version', V))
    except Violation as v:
        return [{'signature': v.signature, 'detail': v.detail}]
    return []
