"""Reference semantics of GET /allocation_candidates and GET
/resource_providers filters: a declarative brute-force enumerator over the raw
dump.  No SQL, no incremental merging, no shortcuts, nothing imported from
placement.  Each rule cites the document it is taken from:

  [P]   the C03 / C13 property statements
  [H]   placement/rest_api_version_history.rst
  [T]   doc/source/user/provider-tree.rst
  [A]   api-ref/source/parameters.yaml / allocation_candidates.inc
"""
import itertools
from urllib.parse import quote

SHARING = 'MISC_SHARES_VIA_AGGREGATE'


# ------------------------------------------------------------------ queries
class Group(object):
    def __init__(self, suffix='', resources=None, required=None,
                 forbidden=None, member_of=None, forbidden_aggs=None,
                 in_tree=None):
        self.suffix = suffix
        self.resources = dict(resources or {})
        self.required = [set(s) for s in (required or [])]   # AND of any-of
        self.forbidden = set(forbidden or ())
        self.member_of = [set(s) for s in (member_of or [])]  # AND of any-of
        self.forbidden_aggs = set(forbidden_aggs or ())
        self.in_tree = in_tree

    def to_json(self):
        return {'suffix': self.suffix, 'resources': self.resources,
                'required': [sorted(s) for s in self.required],
                'forbidden': sorted(self.forbidden),
                'member_of': [sorted(s) for s in self.member_of],
                'forbidden_aggs': sorted(self.forbidden_aggs),
                'in_tree': self.in_tree}

    @classmethod
    def from_json(cls, j):
        return cls(j['suffix'], j['resources'], j['required'], j['forbidden'],
                   j['member_of'], j['forbidden_aggs'], j['in_tree'])


class Query(object):
    def __init__(self, groups, group_policy=None, root_required=None,
                 root_forbidden=None, same_subtree=None, limit=None):
        self.groups = {g.suffix: g for g in groups}
        self.group_policy = group_policy
        self.root_required = set(root_required or ())
        self.root_forbidden = set(root_forbidden or ())
        self.same_subtree = [set(s) for s in (same_subtree or [])]
        self.limit = limit

    def to_json(self):
        return {'groups': [g.to_json() for g in self.groups.values()],
                'group_policy': self.group_policy,
                'root_required': sorted(self.root_required),
                'root_forbidden': sorted(self.root_forbidden),
                'same_subtree': [sorted(s) for s in self.same_subtree],
                'limit': self.limit}

    @classmethod
    def from_json(cls, j):
        return cls([Group.from_json(g) for g in j['groups']],
                   j['group_policy'], j['root_required'], j['root_forbidden'],
                   j['same_subtree'], j['limit'])

    def min_version(self):
        """Lowest microversion whose documented syntax can express this."""
        v = 10
        for g in self.groups.values():
            if g.required:
                v = max(v, 17)
            if g.member_of:
                v = max(v, 21)
            if len(g.member_of) > 1:
                v = max(v, 24)
            if g.forbidden:
                v = max(v, 22)
            if g.suffix:
                v = max(v, 25)
                if not g.suffix.isdigit() or g.suffix.startswith('0'):
                    v = max(v, 33)
            if g.in_tree:
                v = max(v, 31)
            if g.forbidden_aggs:
                v = max(v, 32)
            if any(len(s) > 1 for s in g.required):
                v = max(v, 39)
            if not g.resources:
                v = max(v, 36)
        if self.group_policy:
            v = max(v, 25)
        if self.root_required or self.root_forbidden:
            v = max(v, 35)
        if self.same_subtree:
            v = max(v, 36)
        if self.limit:
            v = max(v, 16)
        return v

    def render(self, version, draw=None):
        """Query-string parameters as a list of (key, value).  `draw`, when
        given, permutes parameter order and chooses among equivalent legal
        spellings; the meaning does not depend on it."""
        from hypothesis import strategies as st
        params = []
        for g in self.groups.values():
            s = g.suffix
            if g.resources:
                items = sorted(g.resources.items())
                if draw:
                    items = draw(st.permutations(items))
                params.append(('resources' + s, ','.join(
                    '%s:%d' % kv for kv in items)))
            singles = sorted(t for a in g.required if len(a) == 1 for t in a)
            multis = [sorted(a) for a in g.required if len(a) > 1]
            forb = sorted('!' + t for t in g.forbidden)
            if version >= 39 and draw and (singles or forb) and \
                    draw(st.booleans()):
                # repeated `required` params are ANDed from 1.39 [H 1.39]
                for t in singles + forb:
                    params.append(('required' + s, t))
            elif singles or forb:
                vals = singles + forb
                if draw:
                    vals = draw(st.permutations(vals))
                params.append(('required' + s, ','.join(vals)))
            for a in multis:
                params.append(('required' + s, 'in:' + ','.join(a)))
            for a in g.member_of:
                a = sorted(a)
                if len(a) == 1:
                    params.append(('member_of' + s, a[0]))
                else:
                    params.append(('member_of' + s, 'in:' + ','.join(a)))
            fa = sorted(g.forbidden_aggs)
            if len(fa) == 1:
                params.append(('member_of' + s, '!' + fa[0]))
            elif fa:
                params.append(('member_of' + s, '!in:' + ','.join(fa)))
            if g.in_tree:
                params.append(('in_tree' + s, g.in_tree))
        if self.group_policy:
            params.append(('group_policy', self.group_policy))
        rr = sorted(self.root_required) + sorted(
            '!' + t for t in self.root_forbidden)
        if rr:
            params.append(('root_required', ','.join(rr)))
        for ss in self.same_subtree:
            params.append(('same_subtree', ','.join(sorted(ss))))
        if self.limit:
            params.append(('limit', str(self.limit)))
        if draw:
            params = draw(st.permutations(params))
        return '&'.join('%s=%s' % (k, quote(v, safe=':,!-_'))
                        for k, v in params)


# ------------------------------------------------------------------- world
class World(object):
    """Derived, read-only view of a dump."""

    def __init__(self, d):
        self.d = d
        self.providers = sorted(d.providers)
        self.parent = {u: d.providers[u]['parent'] for u in self.providers}
        self.root = {u: d.computed_root(u) for u in self.providers}
        self.traits = d.rp_trait_map()
        self.aggs = d.rp_agg_map()
        self.usage = d.usage()
        self.inv = d.inventories
        self.roots = [u for u in self.providers if self.parent[u] is None]
        self.sharing = [u for u in self.providers if SHARING in self.traits[u]]
        # anchors(s): roots of all providers that have an aggregate in common
        # with the sharing provider s [H 1.25: "sharing providers associated
        # via aggregate with any of the providers in that tree"]
        self.anchors = {}
        for s in self.sharing:
            self.anchors[s] = {self.root[p] for p in self.providers
                               if self.aggs[p] & self.aggs[s]}

    def ancestors_or_self(self, u):
        out = set()
        while u is not None:
            out.add(u)
            u = self.parent[u]
        return out

    def has_room(self, p, rc, amount):
        """[P C03/C13] inventory of that class with room for the amount
        under capacity, min_unit, max_unit and step_size."""
        inv = self.inv.get((p, rc))
        if inv is None:
            return False
        used = self.usage.get((p, rc), 0)
        cap = (inv['total'] - inv['reserved']) * inv['allocation_ratio']
        return (used + amount <= cap and inv['min_unit'] <= amount and
                amount <= inv['max_unit'] and amount % inv['step_size'] == 0)

    def placeable(self, p, a):
        """May provider p appear in a candidate anchored at root a?"""
        if self.root[p] == a:
            return True
        return p in self.anchors and a in self.anchors[p]

    def in_all(self, p, member_of):
        return all(self.aggs[p] & s for s in member_of)


def _traits_ok_single(w, p, g):
    return (all(w.traits[p] & a for a in g.required) and
            not (w.traits[p] & g.forbidden))


def candidates(d, q, version):
    """Set of (allocations, mappings) in canonical form:
    allocations = frozenset of (rp, rc, amount);
    mappings = frozenset of (suffix, frozenset(providers))."""
    w = World(d)
    nested_aware = version >= 29
    # unknown in_tree => no candidates [A: in_tree]
    tree_of = {}
    for g in q.groups.values():
        if g.in_tree is not None:
            if g.in_tree not in w.root:
                return set()
            tree_of[g.suffix] = w.root[g.in_tree]
    result = set()
    for a in w.roots:
        # root_required applies to the (non-sharing) root of the candidate
        # [H 1.35]
        if not (q.root_required <= w.traits[a]) or \
                (q.root_forbidden & w.traits[a]):
            continue
        per_group = []
        for g in q.groups.values():
            opts = _options(w, g, a, tree_of.get(g.suffix))
            if not opts:
                per_group = None
                break
            per_group.append((g, opts))
        if per_group is None:
            continue
        for combo in itertools.product(*[o for _g, o in per_group]):
            # group_policy=isolate: providers of the suffixed groups pairwise
            # different [H 1.25]
            if q.group_policy == 'isolate':
                provs = [next(iter(m)) for (g, _o), (_al, m) in
                         zip(per_group, combo) if g.suffix]
                if len(set(provs)) != len(provs):
                    continue
            # same_subtree: among the providers satisfying those groups one is
            # an ancestor-or-self of all the others [H 1.36]
            ok = True
            for ss in q.same_subtree:
                provs = set()
                for (g, _o), (_al, m) in zip(per_group, combo):
                    if g.suffix in ss:
                        provs |= m
                if not any(all(x in w.ancestors_or_self(y) for y in provs)
                           for x in provs):
                    ok = False
                    break
            if not ok:
                continue
            total = {}
            for (_al, _m) in combo:
                for (rp, rc), amt in _al.items():
                    total[(rp, rc)] = total.get((rp, rc), 0) + amt
            # capacity and max_unit on the summed amounts [P C03]
            over = False
            for (rp, rc), amt in total.items():
                inv = w.inv[(rp, rc)]
                cap = int((inv['total'] - inv['reserved']) *
                          inv['allocation_ratio'])
                if w.usage.get((rp, rc), 0) + amt > cap or \
                        amt > inv['max_unit']:
                    over = True
                    break
            if over:
                continue
            if not nested_aware:
                # below 1.29 at most one provider per tree [H 1.29]
                used = {rp for (rp, _rc) in total}
                roots = [w.root[rp] for rp in used]
                if len(set(roots)) != len(roots):
                    continue
            allocs = frozenset((rp, rc, amt)
                               for (rp, rc), amt in total.items())
            maps = frozenset((g.suffix, frozenset(m))
                             for (g, _o), (_al, m) in zip(per_group, combo))
            result.add((allocs, maps))
    return result


def _options(w, g, a, tree_root):
    """Ways to satisfy group g in a candidate anchored at a:
    list of ({(rp, rc): amount}, providers-in-mapping)."""
    out = []
    if g.suffix:
        # one provider with room for all the group's resources, having the
        # required and none of the forbidden traits itself, directly in the
        # member_of aggregates and in the in_tree tree [P C03; T: granular
        # member_of and traits never span providers]
        for p in w.providers:
            if not w.placeable(p, a):
                continue
            if tree_root is not None and w.root[p] != tree_root:
                continue
            if not all(w.has_room(p, rc, amt)
                       for rc, amt in g.resources.items()):
                continue
            if not _traits_ok_single(w, p, g):
                continue
            if not w.in_all(p, g.member_of) or (w.aggs[p] & g.forbidden_aggs):
                continue
            out.append(({(p, rc): amt for rc, amt in g.resources.items()},
                        {p}))
        return out
    # unsuffixed group: one provider per class, spread over the tree of a and
    # sharing providers associated with it [H 1.25; P C03]
    per_rc = []
    for rc, amt in sorted(g.resources.items()):
        provs = []
        for p in w.providers:
            if not w.placeable(p, a) or not w.has_room(p, rc, amt):
                continue
            in_tree_a = w.root[p] == a
            if tree_root is not None:
                # in_tree: only providers of that tree [A in_tree; T example]
                if w.root[p] != tree_root or not in_tree_a:
                    continue
            if in_tree_a:
                # member_of met directly or through the tree's root [T; P]
                if g.member_of and not (w.in_all(p, g.member_of) or
                                        w.in_all(a, g.member_of)):
                    continue
                if (w.aggs[p] | w.aggs[a]) & g.forbidden_aggs:
                    continue
            else:
                # sharing provider reached through the anchor: directly [P]
                if g.member_of and not w.in_all(p, g.member_of):
                    continue
                # documents are silent on a forbidden aggregate of the
                # anchor for a sharing provider; placement's choice (exclude)
                # is followed, see DESIGN.md 4.C03
                if (w.aggs[p] | w.aggs[a]) & g.forbidden_aggs:
                    continue
            if w.traits[p] & g.forbidden:
                continue
            provs.append(p)
        if not provs:
            return []
        per_rc.append((rc, amt, provs))
    for pick in itertools.product(*[pr for _rc, _amt, pr in per_rc]):
        used = set(pick)
        union = set()
        for p in used:
            union |= w.traits[p]
        # required traits met collectively [P C03]
        if not all(union & anyof for anyof in g.required):
            continue
        al = {}
        for (rc, amt, _pr), p in zip(per_rc, pick):
            al[(p, rc)] = amt
        out.append((al, used))
    return out


# --------------------------------------------------------- provider listing
class RPFilter(object):
    """GET /resource_providers filters [P C13]."""

    def __init__(self, name=None, uuid=None, in_tree=None, member_of=None,
                 forbidden_aggs=None, required=None, forbidden=None,
                 resources=None):
        self.name = name
        self.uuid = uuid
        self.in_tree = in_tree
        self.member_of = [set(s) for s in (member_of or [])]
        self.forbidden_aggs = set(forbidden_aggs or ())
        self.required = [set(s) for s in (required or [])]
        self.forbidden = set(forbidden or ())
        self.resources = dict(resources or {})

    def to_json(self):
        return {'name': self.name, 'uuid': self.uuid, 'in_tree': self.in_tree,
                'member_of': [sorted(s) for s in self.member_of],
                'forbidden_aggs': sorted(self.forbidden_aggs),
                'required': [sorted(s) for s in self.required],
                'forbidden': sorted(self.forbidden),
                'resources': self.resources}

    @classmethod
    def from_json(cls, j):
        return cls(**j)

    def active(self):
        return sum(1 for x in (self.name, self.uuid, self.in_tree,
                               self.member_of, self.forbidden_aggs,
                               self.required, self.forbidden, self.resources)
                   if x)

    def min_version(self):
        v = 0
        if self.member_of:
            v = max(v, 3)
            if any(len(s) > 1 for s in self.member_of):
                v = max(v, 3)      # in: is accepted from 1.3 [H 1.3]
            if len(self.member_of) > 1:
                v = max(v, 24)
        if self.resources:
            v = max(v, 4)
        if self.in_tree:
            v = max(v, 14)
        if self.required:
            v = max(v, 18)
            if any(len(s) > 1 for s in self.required):
                v = max(v, 39)
        if self.forbidden:
            v = max(v, 22)
        if self.forbidden_aggs:
            v = max(v, 32)
        return v

    def render(self, version, draw=None):
        from hypothesis import strategies as st
        params = []
        if self.name is not None:
            params.append(('name', self.name))
        if self.uuid is not None:
            params.append(('uuid', self.uuid))
        if self.in_tree is not None:
            params.append(('in_tree', self.in_tree))
        for a in self.member_of:
            a = sorted(a)
            params.append(('member_of', a[0] if len(a) == 1
                           else 'in:' + ','.join(a)))
        fa = sorted(self.forbidden_aggs)
        if len(fa) == 1:
            params.append(('member_of', '!' + fa[0]))
        elif fa:
            params.append(('member_of', '!in:' + ','.join(fa)))
        singles = sorted(t for a in self.required if len(a) == 1 for t in a)
        forb = sorted('!' + t for t in self.forbidden)
        if version >= 39 and draw and (singles or forb) and \
                draw(st.booleans()):
            for t in singles + forb:
                params.append(('required', t))
        elif singles or forb:
            params.append(('required', ','.join(singles + forb)))
        for a in self.required:
            if len(a) > 1:
                params.append(('required', 'in:' + ','.join(sorted(a))))
        if self.resources:
            params.append(('resources', ','.join(
                '%s:%d' % kv for kv in sorted(self.resources.items()))))
        if draw:
            params = draw(st.permutations(params))
        return '&'.join('%s=%s' % (k, quote(v, safe=':,!-_'))
                        for k, v in params)


def list_providers(d, f):
    """The providers GET /resource_providers must return for filter f."""
    w = World(d)
    if f.in_tree is not None and f.in_tree not in w.root:
        return set()
    out = set()
    for p in w.providers:
        if f.name is not None and d.providers[p]['name'] != f.name:
            continue
        if f.uuid is not None and p != f.uuid:
            continue
        if f.in_tree is not None and w.root[p] != w.root[f.in_tree]:
            continue
        if not w.in_all(p, f.member_of) or (w.aggs[p] & f.forbidden_aggs):
            continue
        if not all(w.traits[p] & a for a in f.required) or \
                (w.traits[p] & f.forbidden):
            continue
        if not all(w.has_room(p, rc, amt)
                   for rc, amt in f.resources.items()):
            continue
        out.add(p)
    return out
