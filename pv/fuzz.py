"""Engine F: grammar-based mutation of valid requests (Hypothesis draws)."""
import copy
import json
from urllib.parse import quote

from hypothesis import strategies as st

INTS = [0, -1, 1, 2, 2 ** 31 - 1, 2 ** 31, 2 ** 31 + 1, 2 ** 63 - 1,
        -2 ** 63, -2 ** 31, 10 ** 15]
FLOATS = [0.0, -0.0, 0.5, 1e308, -1e308, 1e-308, float('nan'),
          float('inf'), float('-inf'), 1.5, 2.0 ** 63]
STRINGS = ['', ' ', 'x', 'A' * 256, 'B' * 1025, 'VCPU', 'CUSTOM_', 'CUSTOM_X',
           'custom_lower', '‮RTL‬', 'é́́',
           '\U0001f600\U0001f9e0', '\x00', 'a\x00b', '\x7f\x1b[31m', '\r\n',
           "' OR 1=1 --", '%', '%s%s%s%n', '%25', '../..', 'null', 'NaN',
           '1', '-1', '1e5', 'in:', '!', 'in:,', ',', ':', 'VCPU:', ':1',
           '00000000-0000-0000-0000-000000000000',
           '00000000000000000000000000000000',
           'DEADBEEF-DEAD-4EAD-8EAD-DEADBEEFDEAD', 'not-a-uuid',
           '{0000000a-1111-4111-8111-00000000000a}', 'urn:uuid:x', 'latest',
           'placement 1.39', '퟿', 'MISC_SHARES_VIA_AGGREGATE', '_', '-']
OTHERS = [None, True, False, [], {}, [[]], {'a': 1}, [1, 'a', None]]


def json_paths(node, prefix=()):
    """All (path, value) pairs of a JSON document, containers included."""
    out = [(prefix, node)]
    if isinstance(node, dict):
        for k, v in node.items():
            out.extend(json_paths(v, prefix + (k,)))
    elif isinstance(node, list):
        for i, v in enumerate(node):
            out.extend(json_paths(v, prefix + (i,)))
    return out


def _set(doc, path, value):
    if not path:
        return value
    cur = doc
    for p in path[:-1]:
        cur = cur[p]
    cur[path[-1]] = value
    return doc


def _del(doc, path):
    cur = doc
    for p in path[:-1]:
        cur = cur[p]
    del cur[path[-1]]
    return doc


def unknown_but_valid(old):
    """A value of the same syntactic kind that names nothing stored: it
    passes the schemas and reaches the handlers' lookups."""
    import re
    if re.match(r'^[0-9a-fA-F]{8}-[0-9a-fA-F-]{27}$', old):
        return 'deadbeef-dead-4ead-8ead-deadbeef0bad'
    if re.match(r'^[A-Z0-9_]+$', old):
        return 'CUSTOM_PV_NOPE'
    return old + '-nope'


def mutated_value(draw, old):
    kind = draw(st.sampled_from(['int', 'float', 'str', 'other', 'near']))
    if kind == 'near' and isinstance(old, bool):
        return not old
    if kind == 'near' and isinstance(old, int):
        return old + draw(st.sampled_from([-1, 1, 1000, -1000]))
    if kind == 'near' and isinstance(old, str):
        c = draw(st.sampled_from(['upper', 'lower', 'nodash', 'trunc', 'ws',
                                  'double', 'nl', 'nl', 'prenl', 'tab',
                                  'unknown', 'unknown', 'unknown']))
        if c == 'unknown':
            return unknown_but_valid(old)
        return {'upper': old.upper(), 'lower': old.lower(),
                'nodash': old.replace('-', ''), 'trunc': old[:-1],
                'ws': ' ' + old + ' ', 'double': old + old,
                'nl': old + '\n', 'prenl': '\n' + old,
                'tab': old + '\t'}[c]
    if kind == 'int' or kind == 'near':
        return draw(st.sampled_from(INTS))
    if kind == 'float':
        return draw(st.sampled_from(FLOATS))
    if kind == 'str':
        return draw(st.sampled_from(STRINGS))
    return copy.deepcopy(draw(st.sampled_from(OTHERS)))


def mutate_body(draw, body):
    """One structural or value mutation of a JSON body."""
    doc = copy.deepcopy(body)
    paths = json_paths(doc)
    how = draw(st.sampled_from(['value', 'value', 'value', 'drop', 'add',
                                'retype-root', 'rename-key', 'dup-value']))
    if how == 'retype-root' or not paths:
        return mutated_value(draw, doc), 'body:retype-root'
    path, old = draw(st.sampled_from(paths))
    if how == 'drop' and path:
        parent = doc
        for p in path[:-1]:
            parent = parent[p]
        if isinstance(parent, (dict, list)):
            return _del(doc, path), 'body:drop'
    if how == 'add':
        conts = [(p, v) for p, v in paths if isinstance(v, dict)]
        if conts:
            p, v = draw(st.sampled_from(conts))
            key = draw(st.sampled_from(STRINGS + ['extra', 'total', 'name',
                                                  'generation', 'VCPU']))
            v[key] = mutated_value(draw, None)
            return doc, 'body:add-key'
    if how == 'rename-key' and path and isinstance(path[-1], str):
        parent = doc
        for p in path[:-1]:
            parent = parent[p]
        if isinstance(parent, dict):
            val = parent.pop(path[-1])
            c = draw(st.integers(0, 3))
            if c == 3:
                parent[unknown_but_valid(path[-1])] = val
                return doc, 'body:rename-key-unknown'
            if c == 0:
                # near miss of the old key (what a $-anchored pattern lets by)
                parent[path[-1] + draw(st.sampled_from(
                    ['\n', ' ', '\t', '\r\n']))] = val
                return doc, 'body:rename-key-near'
            parent[draw(st.sampled_from(STRINGS))] = val
            return doc, 'body:rename-key'
    if how == 'dup-value' and isinstance(old, list) and old:
        return _set(doc, path, old + [old[0]]), 'body:dup-item'
    return _set(doc, path, mutated_value(draw, old)), 'body:value'


def mutate_semantic(draw, body):
    """Replace one identifier (a key or a string value that is a UUID or a
    class / trait name) by a well-formed one that names nothing stored, so
    that the request passes the schema and fails in a handler's lookup - the
    place where half-done work can be left behind."""
    import re
    doc = copy.deepcopy(body)
    ident = re.compile(r'^([0-9a-fA-F]{8}-[0-9a-fA-F-]{27}|[A-Z][A-Z0-9_]+)$')
    cands = []
    for path, val in json_paths(doc):
        if path and isinstance(path[-1], str) and ident.match(path[-1]):
            cands.append(('key', path))
        if isinstance(val, str) and ident.match(val):
            cands.append(('value', path))
    if not cands:
        return mutate_body(draw, body)
    what, path = draw(st.sampled_from(cands))
    if not path:
        return unknown_but_valid(doc), 'body:unknown-identifier-value'
    if what == 'value':
        cur = doc
        for p in path[:-1]:
            cur = cur[p]
        cur[path[-1]] = unknown_but_valid(cur[path[-1]])
        return doc, 'body:unknown-identifier-value'
    parent = doc
    for p in path[:-1]:
        parent = parent[p]
    parent[unknown_but_valid(path[-1])] = parent.pop(path[-1])
    return doc, 'body:unknown-identifier-key'


def split_path(p):
    if '?' in p:
        a, q = p.split('?', 1)
        params = []
        for part in q.split('&'):
            if '=' in part:
                k, v = part.split('=', 1)
            else:
                k, v = part, None
            params.append([k, v])
        return a, params
    return p, []


def join_path(a, params):
    if not params:
        return a
    return a + '?' + '&'.join(k if v is None else '%s=%s' % (k, v)
                              for k, v in params)


def mutate_query(draw, path):
    a, params = split_path(path)
    how = draw(st.sampled_from(['repeat', 'value', 'add', 'drop', 'empty',
                                'badpct', 'rename', 'listshape',
                                'listshape']))
    if how == 'add' or not params:
        k = draw(st.sampled_from(
            ['limit', 'resources', 'required', 'member_of', 'in_tree',
             'group_policy', 'root_required', 'same_subtree', 'name', 'uuid',
             'project_id', 'user_id', 'consumer_type', 'associated',
             'resources1', 'required1', 'member_of1', 'in_tree1',
             'resources_A', 'unknown', 'resources01', 'limit ']))
        v = quote(str(draw(st.sampled_from(STRINGS + ['1', '0', 'VCPU:1',
                                                      'none', 'isolate', ',',
                                                      ' , ', '_A,', ',,']))),
                  safe=':,!')
        params.insert(draw(st.integers(0, len(params))), [k, v])
        return join_path(a, params), 'query:add'
    i = draw(st.integers(0, len(params) - 1))
    if how == 'repeat':
        k, v = params[i]
        nv = v if draw(st.booleans()) else quote(
            str(draw(st.sampled_from(STRINGS + ['x', '5', '0']))), safe=':,!')
        params.insert(draw(st.integers(0, len(params))), [k, nv])
        return join_path(a, params), 'query:repeat'
    if how == 'value':
        params[i][1] = quote(str(mutated_value(draw, params[i][1] or '')),
                             safe=':,!')
        return join_path(a, params), 'query:value'
    if how == 'listshape':
        # the shape of a comma-separated list: only separators, empty
        # elements, leading / trailing / doubled separators
        if draw(st.booleans()):
            # a list-valued parameter the request did not carry, consisting
            # of separators / blanks only
            names = ['same_subtree', 'root_required', 'required',
                     'member_of', 'resources', 'required1', 'member_of1']
            if 'allocation_candidates' in a:
                names += ['same_subtree', 'same_subtree', 'root_required']
            k = draw(st.sampled_from(names))
            params.append([k, draw(st.sampled_from(
                [',', ',,', '%20,%20', ',%20', '%20', 'in:,', '!,', ':']))])
            return join_path(a, params), 'query:list-shape-added'
        v = params[i][1] or ''
        params[i][1] = draw(st.sampled_from(
            [',', ',,', '%20,%20', v + ',', ',' + v, v.replace(',', ',,'),
             v + ',%20', ':', v.replace(':', '::')]))
        return join_path(a, params), 'query:list-shape'
    if how == 'drop':
        del params[i]
        return join_path(a, params), 'query:drop'
    if how == 'empty':
        params[i][1] = '' if draw(st.booleans()) else None
        return join_path(a, params), 'query:empty'
    if how == 'badpct':
        params[i][1] = (params[i][1] or '') + draw(st.sampled_from(
            ['%', '%zz', '%e9', '%ff%fe', '%00', '%c3%28']))
        return join_path(a, params), 'query:bad-percent'
    params[i][0] = params[i][0] + draw(st.sampled_from(['1', '_', 'x', ' ',
                                                        '01', '-']))
    return join_path(a, params), 'query:rename'


def mutate_path(draw, path):
    a, params = split_path(path)
    segs = a.split('/')
    how = draw(st.sampled_from(['seg', 'extra', 'long', 'pct', 'slash',
                                'trunc']))
    if how == 'seg' and len(segs) > 2:
        i = draw(st.integers(1, len(segs) - 1))
        segs[i] = quote(str(mutated_value(draw, segs[i])), safe='')
    elif how == 'extra':
        segs.append(draw(st.sampled_from(['extra', '', '..', 'inventories',
                                          '%2e%2e'])))
    elif how == 'long':
        segs.append('L' * draw(st.sampled_from([300, 5000])))
    elif how == 'pct' and len(segs) > 1:
        i = draw(st.integers(1, len(segs) - 1))
        segs[i] = segs[i] + draw(st.sampled_from(['%00', '%e9', '%2f',
                                                  '%zz', '%']))
    elif how == 'slash':
        segs.append('')
    else:
        segs = segs[:-1] or ['', '']
    return join_path('/'.join(segs) or '/', params), 'path:' + how


def mutate_headers(draw, req):
    h = dict(req.get('h') or {})
    how = draw(st.sampled_from(
        ['no-ctype', 'odd-ctype', 'accept', 'clen', 'version', 'version2',
         'no-accept', 'charset']))
    if how == 'no-ctype':
        h['Content-Type'] = None
    elif how == 'odd-ctype':
        h['Content-Type'] = draw(st.sampled_from(
            ['text/plain', 'application/xml', 'application/json; charset=x',
             'APPLICATION/JSON', '', 'application/json, text/plain', 'json']))
    elif how == 'charset':
        h['Content-Type'] = draw(st.sampled_from(
            ['application/json; charset=utf-16',
             'application/json; charset=latin-1',
             'application/json;charset=UTF-8']))
    elif how == 'accept':
        h['Accept'] = draw(st.sampled_from(
            ['text/html', 'application/xml', '*/*', 'application/*',
             'text/*;q=0.5, application/json;q=0.1', '', 'garbage',
             'application/json;q=0', 'text/plain']))
    elif how == 'no-accept':
        h['Accept'] = None
    elif how == 'clen':
        h['Content-Length'] = draw(st.sampled_from(
            ['abc', '-1', '0', '99999', '', '1.5', '１２']))
    elif how == 'version':
        h['OpenStack-API-Version'] = draw(st.sampled_from(
            ['placement', 'placement 1', 'placement 1.', 'placement x.y',
             'placement 1.39.0', 'placement -1.0', 'compute 2.1',
             'placement 1.39, placement 1.0', 'placement  1.39',
             'placement latest ', 'PLACEMENT 1.39', 'placement 01.039',
             'placement 1.999999999999999999999', '']))
    else:
        h['OpenStack-API-Version'] = 'compute 2.1, placement 1.%d' % draw(
            st.integers(0, 39))
    return h, 'header:' + how


def mutate_raw(draw, body):
    raw = json.dumps(body).encode('utf-8') if body is not None else b''
    how = draw(st.sampled_from(['truncate', 'invalid-utf8', 'garbage',
                                'empty', 'dup-key', 'bom', 'huge-number',
                                'deep']))
    if how == 'truncate':
        return raw[:draw(st.integers(0, max(0, len(raw) - 1)))], 'raw:truncate'
    if how == 'invalid-utf8':
        i = draw(st.integers(0, len(raw)))
        return raw[:i] + b'\xff\xfe' + raw[i:], 'raw:invalid-utf8'
    if how == 'garbage':
        return draw(st.sampled_from(
            [b'{', b'}', b'[', b'null', b'true', b'""', b'0', b'{"a":}',
             b'\x00', b'<xml/>', b'{"a": 1e999}', b'[1,]', b"{'a': 1}"])), \
            'raw:garbage'
    if how == 'empty':
        return b'', 'raw:empty'
    if how == 'dup-key' and isinstance(body, dict) and body:
        k = sorted(body, key=str)[0]
        extra = json.dumps({k: body[k]})[1:-1]
        return raw[:-1] + b', ' + extra.encode() + b'}', 'raw:dup-key'
    if how == 'bom':
        return b'\xef\xbb\xbf' + raw, 'raw:bom'
    if how == 'huge-number':
        return raw.replace(b': 1', b': 1' + b'0' * 30, 1), 'raw:huge-number'
    return b'[' * 200 + b']' * 200, 'raw:deep'


def mutate(draw, req):
    """Apply 1-4 mutations to a valid request; returns (request, labels)."""
    r = copy.deepcopy(req)
    labels = []
    n = draw(st.sampled_from([1, 1, 1, 2, 2, 3, 4]))
    for _ in range(n):
        choices = ['query'] if '?' in r['p'] else []
        if r.get('b') is not None and r.get('raw') is None:
            choices += ['body', 'body', 'body', 'body', 'raw', 'semantic']
        choices += ['path', 'headers', 'method']
        if r['m'] == 'GET':
            choices += ['query', 'query']
        kind = draw(st.sampled_from(choices))
        if kind == 'semantic':
            r['b'], lb = mutate_semantic(draw, r['b'])
        elif kind == 'body':
            r['b'], lb = mutate_body(draw, r['b'])
        elif kind == 'raw':
            r['raw'], lb = mutate_raw(draw, r['b'])
            r['raw'] = r['raw'].decode('latin-1')
        elif kind == 'query':
            r['p'], lb = mutate_query(draw, r['p'])
        elif kind == 'path':
            r['p'], lb = mutate_path(draw, r['p'])
        elif kind == 'headers':
            r['h'], lb = mutate_headers(draw, r)
        else:
            r['m'] = draw(st.sampled_from(['GET', 'PUT', 'POST', 'DELETE',
                                           'HEAD', 'PATCH', 'OPTIONS']))
            lb = 'method'
        labels.append(lb)
    return r, labels


LIST_PARAMS = ['same_subtree', 'root_required', 'required', 'member_of',
               'resources', 'required1', 'member_of1', 'resources1',
               'in_tree', 'name']
SEPARATOR_ONLY = [',', ',,', '%20,%20', ',%20', '%20', 'in:,', '!,', ':']


def list_shape_variants(valid):
    """The valid GET request with one more query parameter whose value
    consists of separators / blanks only (every list-valued parameter x
    every such value)."""
    out = []
    a, params = split_path(valid['p'])
    for k in LIST_PARAMS:
        for v in SEPARATOR_ONLY[::2]:
            r = copy.deepcopy(valid)
            r['p'] = join_path(a, params + [[k, v]])
            out.append(r)
    return out
