"""Engine C driver: generated start states and contending request sets,
explored under bounded-preemption and free schedules (pv/sched.py)."""
import itertools
import json

import hypothesis
from hypothesis import HealthCheck, Phase, given, settings, strategies as st

from pv import bgen, gen, machine, sched
from pv.dump import dump
from pv.runner import Violation, stable_hash

BIG = 60


def atomic_insertions(np):
    """np: {name: number of scheduling points when run alone}.  Request X
    runs to completion at every point of request Y (2 requests), plus all
    serial orders."""
    names = sorted(np)
    out = []
    for y in names:
        for x in names:
            if x == y:
                continue
            others = [n for n in names if n not in (x, y)]
            for i in range(np[y] + 1):
                s = [y] * i + [x] * BIG + [y] * BIG
                for o in others:
                    s += [o] * BIG
                out.append(s)
                # third request first
                if others:
                    out.append([others[0]] * BIG + s)
                    # both other requests inside the same window of y (e.g.
                    # DELETE and re-creation of an entity between a writer's
                    # look and its write)
                    out.append([y] * i + [x] * BIG + [others[0]] * BIG +
                               [y] * BIG)
    # dedupe
    seen, uniq = set(), []
    for s in out:
        k = tuple(s)
        if k not in seen:
            seen.add(k)
            uniq.append(s)
    return uniq


def two_splits(np, a, b):
    out = []
    for i in range(1, np[a] + 1):
        for j in range(1, np[b] + 1):
            out.append([a] * i + [b] * j + [a] * BIG + [b] * BIG)
    return out


def three_splits(np, a, b):
    """a runs i points, b j points, a k more points, then b to its end and
    a to its end: four context switches (a creation race that is decided
    only after both requests have looked, and one has created)."""
    out = []
    # the look-then-create windows are at the start of a request: keep the
    # first and third leg short, enumerate the middle one completely
    for i in range(1, min(np[a], 4)):
        for j in range(1, np[b] + 1):
            for k in range(1, min(np[a] - i, 3) + 1):
                out.append([a] * i + [b] * j + [a] * k + [b] * BIG +
                           [a] * BIG)
    return out


def write_window_splits(wp, np, a, b):
    """Three-splits aimed at look-then-act windows: a is stopped right
    before each of its own writes, b runs until right after each of ITS
    writes, a then makes 1-3 more transactions, b finishes, a finishes."""
    out = []
    for wa in wp[a]:
        i = wa - 1
        if i < 1:
            continue
        for wb in wp[b]:
            for j in (wb, wb + 1):
                if j > np[b]:
                    continue
                for k in (1, 2, 3):
                    if i + k > np[a]:
                        continue
                    out.append([a] * i + [b] * j + [a] * k + [b] * BIG +
                               [a] * BIG)
    return out


def locksteps(names):
    """Round-robin interleavings: the requests advance s transactions at a
    time in turn, after an initial lead of o transactions for the first one.
    Both requests are then inside the same look-then-act window (both have
    looked before either acts), at every depth of the request."""
    out = []
    orders = [list(names), list(reversed(names))]
    for order in orders:
        for lead in (0, 1, 2, 3):
            for step in (1, 2):
                s = [order[0]] * lead
                for _ in range(BIG):
                    for n in order[1:] + order[:1]:
                        s += [n] * step
                out.append(s)
    return out


def free_schedule(draw, names):
    return draw(st.lists(st.sampled_from(names), min_size=2, max_size=30))


def run_cases(ctx, gen_case, oracle, examples, free=6, splits=8,
              max_providers=4, rounds=2):
    """gen_case(draw, d) -> {name: request} (2-3 requests) or None.
    oracle(ctx, svc, snap, start, reqs, race, schedule) raises Violation."""
    svc = machine.service()
    base = machine.base_snapshot(svc)
    skip = set()
    last = {}

    def body(data):
        desc = data.draw(bgen.states(max_providers=max_providers))
        bgen.build_state(svc, desc, base)
        start = dump(svc.dbpath)
        snap = svc.snapshot()
        reqs = gen_case(data.draw, start)
        if not reqs:
            return
        names = sorted(reqs)
        np = {}
        for n in names:
            np[n], _r = sched.count_points(svc, snap, reqs[n])
        scheds = atomic_insertions(np)
        if len(names) == 2 or ctx.thorough:
            ts = two_splits(np, names[0], names[1])
            if not ctx.thorough and len(ts) > splits:
                ts = data.draw(st.lists(st.sampled_from(ts), min_size=splits,
                                        max_size=splits, unique_by=id))
            scheds += ts
        if len(names) == 2:
            wp = {n: sched.write_points(svc, snap, reqs[n]) for n in names}
            ww = write_window_splits(wp, np, names[0], names[1]) + \
                write_window_splits(wp, np, names[1], names[0])
            kw = 200 if ctx.thorough else 2 * splits
            if len(ww) > kw:
                ww = data.draw(st.lists(st.sampled_from(ww), min_size=kw,
                                        max_size=kw, unique_by=id))
            t3 = three_splits(np, names[0], names[1]) + \
                three_splits(np, names[1], names[0])
            k3 = 40 if ctx.thorough else splits
            if len(t3) > k3:
                t3 = data.draw(st.lists(st.sampled_from(t3), min_size=k3,
                                        max_size=k3, unique_by=id))
            scheds += ww + t3
        scheds += locksteps(names)
        for _ in range(free):
            scheds.append(free_schedule(data.draw, names))
        if len(names) == 3 and not ctx.thorough and len(scheds) > 40:
            scheds = data.draw(st.lists(st.sampled_from(scheds), min_size=40,
                                        max_size=40, unique_by=id))
        for schedule in scheds:
            try:
                one(ctx, svc, snap, start, reqs, schedule, oracle, desc)
            except Violation as v:
                sig = dict(v.signature)
                sig.setdefault('prop', ctx.prop)
                known = ctx.known.match(sig)
                if known is not None:
                    ctx.stats.known[known['id']] = \
                        ctx.stats.known.get(known['id'], 0) + 1
                    continue
                key = json.dumps(sig, sort_keys=True, default=str)
                if key in skip:
                    continue
                rec = {'signature': sig, 'detail': v.detail,
                       'replay': {'state': desc, 'reqs': reqs,
                                  'schedule': compress(schedule)}}
                last['fail'] = (key, rec)
                raise

    for rnd in range(rounds):
        last.pop('fail', None)
        test = given(st.data())(body)
        test = hypothesis.seed(ctx.seed + rnd)(test)
        test = settings(
            max_examples=examples if rnd == 0 else max(4, examples // 3),
            deadline=None, database=None,
            suppress_health_check=list(HealthCheck),
            report_multiple_bugs=False, print_blob=False,
            phases=[Phase.generate],
            verbosity=hypothesis.Verbosity.quiet)(test)
        try:
            test()
            break
        except (Violation, hypothesis.errors.Flaky) as exc:
            # Flaky: the tested code answered differently when Hypothesis
            # re-ran the failing example (e.g. hash-order dependence); the
            # violation recorded at its first occurrence stands
            if 'fail' not in last:
                raise
            key, rec = last['fail']
            if not isinstance(exc, Violation):
                rec['detail'] = dict(rec.get('detail') or {},
                                     nondeterministic_on_rerun=True)
            skip.add(key)
            ctx.stats.violations.append(rec)


def compress(schedule):
    """['A','A','B'] -> [['A',2],['B',1]]"""
    out = []
    for n in schedule:
        if out and out[-1][0] == n:
            out[-1][1] += 1
        else:
            out.append([n, 1])
    return out


def expand(c):
    out = []
    for n, k in c:
        out += [n] * k
    return out


def one(ctx, svc, snap, start, reqs, schedule, oracle, desc=None):
    svc.restore(snap)
    race = sched.Race(svc, reqs, schedule).run()
    ctx.stats.evaluations += 1
    st_ = '/'.join('%s' % race.responses[n].status for n in sorted(reqs))
    ops = '+'.join(reqs[n]['op'] for n in sorted(reqs))
    ctx.stats.count('%s -> %s' % (ops, st_))
    inter = race.interleaved(start)
    integrity(race)
    oracle(ctx, svc, snap, start, reqs, race, schedule)
    if inter:
        ctx.stats.count('interleaved')
        ctx.stats.nontriv(stable_hash([desc, reqs, compress(schedule)]))
        if len(ctx.stats.samples) < ctx.stats.MAX_SAMPLES:
            ctx.stats.sample({
                'requests': {n: '%s %s @%s' % (r['m'], r['p'], r['v'])
                             for n, r in reqs.items()},
                'schedule': compress(schedule)[:8],
                'statuses': st_,
                'transaction_ends': [n for (n, k, _d) in race.points
                                     if k == 'txn-end']})
    return race


def serial_equivalent(ctx, svc, snap, start, reqs, race):
    """C07 oracle.  Returns the serial order found."""
    winners = [n for n in sorted(reqs) if race.responses[n].ok]
    order = [n for n in race.commit_order(start) if n in winners]
    order += [n for n in winners if n not in order]
    tried = []
    cands = [order] + [list(p) for p in itertools.permutations(winners)
                       if list(p) != order]
    best = None
    for cand in cands:
        resp, final = sched.serial(svc, snap, reqs, cand)
        tried.append(cand)
        all_ok = all(resp[n].ok for n in cand)
        df = sched.diff_noids(race.final, final)
        if all_ok and not df:
            return cand
        if best is None:
            best = {'order': cand,
                    'serial_statuses': {n: resp[n].status for n in cand},
                    'diff_concurrent_vs_serial': df[:10]}
    losers = [n for n in sorted(reqs) if n not in winners]
    raise Violation(
        {'clause': 'not-serializable',
         'winners': '+'.join(reqs[n]['op'] for n in winners),
         'losers': '+'.join(reqs[n]['op'] for n in losers)},
        {'statuses': {n: race.responses[n].status for n in reqs},
         'codes': {n: race.responses[n].code() for n in reqs},
         'first_order_tried': best, 'orders_tried': len(tried)})


def no_server_error(reqs, race):
    for n in sorted(reqs):
        r = race.responses[n]
        if r.status >= 500 or r.escaped:
            raise Violation(
                {'clause': 'server-error-under-race', 'op': reqs[n]['op'],
                 'status': r.status},
                {'response': r.json, 'escaped': r.escaped,
                 'statuses': {k: race.responses[k].status for k in reqs}})


def replay(ctx, oracle, data):
    svc = machine.service()
    base = machine.base_snapshot(svc)
    bgen.build_state(svc, data['state'], base)
    start = dump(svc.dbpath)
    snap = svc.snapshot()
    try:
        one(ctx, svc, snap, start, data['reqs'], expand(data['schedule']),
            oracle, data['state'])
    except Violation as v:
        sig = dict(v.signature)
        sig.setdefault('prop', ctx.prop)
        return [{'signature': sig, 'detail': v.detail}]
    return []


# ----------------------------------------------------------- loser analysis
def flat(d):
    out = {}
    for table, v in sched.noids(d).items():
        if isinstance(v, dict):
            for k, val in v.items():
                out[(table, k)] = val
        else:
            for item in v:
                out[(table, item)] = True
    return out


def loser_no_effect(race, start, reqs):
    """A request answered with an error may only have created rows and
    removed exactly what it created, unmodified: every committed change of
    one of its transactions must start from a value it wrote itself (or
    create the row), and its net effect must be nothing."""
    losers = [n for n in sorted(reqs) if not race.responses[n].ok]
    if not losers:
        return
    prev = flat(start)
    mine = {n: {} for n in losers}
    last_writer = {}
    for (name, kind, d) in race.points:
        if d is None:
            continue
        cur = flat(d)
        if kind == 'txn-end' and cur != prev:
            for k in set(cur) | set(prev):
                if prev.get(k) != cur.get(k):
                    last_writer[k] = name
        if kind == 'txn-end' and name in mine and cur != prev:
            for k in set(cur) | set(prev):
                old, new = prev.get(k), cur.get(k)
                if old == new:
                    continue
                m = mine[name]
                expected = m[k] if k in m else None
                if old != expected:
                    raise Violation(
                        {'clause': 'rejected-request-overwrote-a-row',
                         'op': reqs[name]['op'], 'table': k[0]},
                        {'key': repr(k), 'old': repr(old), 'new': repr(new),
                         'status': race.responses[name].status})
                m[k] = new
        prev = cur
    for n, m in mine.items():
        # a row the loser created and a successful request then took over
        # (rewrote) is that request's row, not a residue of the loser
        left = {repr(k): repr(v) for k, v in m.items()
                if v is not None and last_writer.get(k) == n}
        if left:
            raise Violation(
                {'clause': 'rejected-request-left-an-effect',
                 'op': reqs[n]['op'],
                 'tables': '+'.join(sorted({k[0] for k, v in m.items()
                                            if v is not None}))},
                {'left': left, 'status': race.responses[n].status})


def returned_generation_is_committed(race, start, reqs):
    """C10 under concurrency: the provider generation a successful write
    reports is the one that write committed (the value stored right after
    its own last state-changing transaction), whatever ran in between."""
    for n in sorted(reqs):
        resp = race.responses[n]
        j = resp.json
        u = reqs[n].get('target')
        if not resp.ok or not isinstance(j, dict) or u is None:
            continue
        g = j.get('resource_provider_generation')
        if g is None and reqs[n]['op'] in ('update_rp', 'create_rp'):
            g = j.get('generation')
        if g is None:
            continue
        prev = start
        own = None
        for (name, kind, d) in race.points:
            if d is None:
                continue
            if name == n and kind == 'txn-end' and \
                    sched.noids(d) != sched.noids(prev):
                own = d
            prev = d
        if own is None or u not in own.providers:
            continue
        stored = own.providers[u]['generation']
        if stored != g:
            raise Violation(
                {'clause': 'returned-generation-is-not-the-committed-one',
                 'op': reqs[n]['op']},
                {'request': n, 'returned': g, 'stored_after_own_commit':
                 stored, 'statuses': {k: race.responses[k].status
                                      for k in reqs}})


def integrity(race):
    from pv import oracles
    oracles.forest_invariant(race.final, 'forest-after-race')
    if race.final.dangling:
        raise Violation({'clause': 'dangling-reference-after-race',
                         'kind': race.final.dangling[0].split(' ')[0]},
                        {'dangling': race.final.dangling[:5]})


def corrected(req, state):
    """Copy of req whose carried generations are those of `state`."""
    import copy
    r = copy.deepcopy(req)
    b = r['b']
    op = r['op']

    def fix_consumers(entries):
        for c, e in entries.items():
            if 'consumer_generation' in e:
                row = state.consumers.get(c)
                e['consumer_generation'] = row['generation'] if row else None

    if op in ('put_inventories', 'put_inventory', 'put_rp_traits') or (
            op == 'put_rp_aggregates' and isinstance(b, dict)):
        if r['target'] in state.providers:
            b['resource_provider_generation'] = \
                state.providers[r['target']]['generation']
    elif op == 'reshaper':
        for u, x in b['inventories'].items():
            if u in state.providers:
                x['resource_provider_generation'] = \
                    state.providers[u]['generation']
        fix_consumers(b['allocations'])
    elif op == 'post_allocations':
        fix_consumers(b)
    elif op == 'put_allocations':
        fix_consumers({r['p'].split('/')[-1]: b})
    return r


def loser_status(ctx, svc, snap, reqs, race, order, n):
    """A request that carried a generation and was answered with an error
    must be 409 placement.concurrent_update (code from 1.23) if the stale
    generation is the only thing wrong with it, i.e. if the same request
    with the then-current generations succeeds after the winners."""
    resp = race.responses[n]
    if resp.ok:
        return
    # judge the loser against what was committed when IT finished: winners
    # that ran (or finished) only afterwards do not count
    ends = {name: i for i, (name, kind, _d) in enumerate(race.points)
            if kind == 'end'}
    end_n = ends.get(n, len(race.points))
    prev = None
    wrote_before = set()
    for i, (name, kind, d) in enumerate(race.points[:end_n]):
        if d is None:
            continue
        if kind == 'txn-end' and prev is not None and \
                sched.noids(d) != sched.noids(prev) and name != n:
            wrote_before.add(name)
        prev = d
    done_before = [w for w in order if ends.get(w, 1 << 30) < end_n]
    if any(w not in done_before for w in wrote_before if w in order):
        ctx.stats.count('loser analysis skipped (winner partly committed)')
        return
    # The loser may have taken its decision at any of its own scheduling
    # points: the corrected request has to succeed against every state it
    # can have seen (the winners completed before each of those points)
    my_points = [i for i, (name, _k, _d) in enumerate(race.points)
                 if name == n]
    # first state-changing transaction of every other request
    first_write = {}
    prevd = None
    for i, (name, kind, d) in enumerate(race.points):
        if d is None:
            continue
        if kind == 'txn-end' and prevd is not None and name != n and \
                name not in first_write and \
                sched.noids(d) != sched.noids(prevd):
            first_write[name] = i
        prevd = d
    prefixes = []
    for i in my_points:
        pre = [w for w in order if ends.get(w, 1 << 30) < i]
        begun = {w for w in order if first_write.get(w, 1 << 30) < i}
        if begun != set(pre):
            # some winner had committed part (or all) of its work without
            # having finished: that state cannot be rebuilt by serial replay
            ctx.stats.count('loser analysis skipped (winner partly '
                            'committed)')
            return
        if pre not in prefixes:
            prefixes.append(pre)
    if done_before not in prefixes:
        prefixes.append(done_before)
    stale = False
    for pre in prefixes:
        _r, state = sched.serial(svc, snap, reqs, pre)
        fixed = corrected(reqs[n], state)
        if fixed['b'] != reqs[n]['b']:
            stale = True
        r2 = machine.execute(svc, fixed)
        if not r2.ok:
            return  # rejected for another reason in a state it may have seen
    if not stale:
        return      # carried nothing stale
    v = gen.vt(reqs[n]['v'])
    if resp.status != 409 or (v >= (1, 23) and
                              resp.code() != 'placement.concurrent_update'):
        raise Violation(
            {'clause': 'stale-generation-not-409-concurrent-update',
             'op': reqs[n]['op'], 'status': resp.status},
            {'code': resp.code(), 'detail': resp.detail()})
