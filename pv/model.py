"""Reference model of the placement API (C11).

Written from the API reference (api-ref/source/*.inc), the microversion
history and the user documentation; shares no code with placement.  The state
it works on is the raw Dump (pv/dump.py) read with sqlite3.

predict(d, req, cfg)  -> Pred: the set of statuses the documented meaning of
                         the request allows in state d, and - for success -
                         the state projection that must result.
view(d, req)          -> the semantic content a successful GET must report.

Where the documents leave room the model returns a *set* of statuses; each
such place carries a comment.
"""
import copy
from urllib.parse import parse_qs, urlsplit

from pv import gen

MAX_INT = 2 ** 31 - 1
INV_FIELDS = ('total', 'reserved', 'min_unit', 'max_unit', 'step_size',
              'allocation_ratio')
INV_DEFAULTS = {'reserved': 0, 'min_unit': 1, 'max_unit': MAX_INT,
                'step_size': 1, 'allocation_ratio': 1.0}


def vt(req):
    return gen.vt(req['v']) if req.get('v') else (1, 0)


class State(object):
    """The projection of a Dump that the documented semantics determine."""

    def __init__(self, d):
        self.providers = {u: {'name': p['name'], 'parent': p['parent']}
                          for u, p in d.providers.items()}
        self.inventories = {k: dict(v) for k, v in d.inventories.items()}
        self.allocations = dict(d.allocations)
        self.consumers = {c: {'project': x['project'], 'user': x['user'],
                              'type': x['type']}
                          for c, x in d.consumers.items()}
        self.rp_traits = set(d.rp_traits)
        self.rp_aggs = set(d.rp_aggs)
        self.traits = set(d.traits)
        self.classes = set(d.classes)

    def root(self, u):
        seen = set()
        while u is not None and u not in seen:
            seen.add(u)
            p = self.providers[u]['parent']
            if p is None:
                return u
            u = p
        return None

    def as_dict(self):
        return {
            'providers': {u: (p['name'], p['parent'], self.root(u))
                          for u, p in self.providers.items()},
            'inventories': self.inventories,
            'allocations': self.allocations,
            'consumers': {c: (x['project'], x['user'], x['type'])
                          for c, x in self.consumers.items()},
            'rp_traits': self.rp_traits, 'rp_aggs': self.rp_aggs,
            'traits': self.traits, 'classes': self.classes,
        }


def actual(d):
    s = State(d)
    out = s.as_dict()
    # the stored root, not the computed one
    out['providers'] = {u: (p['name'], p['parent'], p['root'])
                        for u, p in d.providers.items()}
    return out


def state_diff(want, got):
    out = []
    for k in want:
        a, b = want[k], got[k]
        if a == b:
            continue
        if isinstance(a, dict):
            for kk in sorted(set(a) | set(b), key=repr):
                if a.get(kk) != b.get(kk):
                    out.append('%s[%s]: model %r, stored %r'
                               % (k, kk, a.get(kk), b.get(kk)))
        else:
            for x in sorted(a - b, key=repr):
                out.append('%s: model has %r, stored lacks it' % (k, x))
            for x in sorted(b - a, key=repr):
                out.append('%s: stored has %r, model lacks it' % (k, x))
    return out


class Pred(object):
    def __init__(self, ok_status, errors, after=None, body=None, note=None,
                 also=()):
        """errors: set of error statuses whose condition holds in this state;
        if empty the request must succeed with ok_status."""
        self.errors = set(errors)
        self.statuses = set(errors) if errors else {ok_status}
        self.statuses |= set(also)
        self.ok_status = ok_status
        self.after = after          # State or None (= unchanged)
        self.body = body            # dict of expected semantic body or None
        self.note = note


# ------------------------------------------------------------ inventories
def full_inventory(inv):
    out = dict(INV_DEFAULTS)
    out.update(inv)
    return out


def _schema_ok_inventory(inv):
    if not isinstance(inv, dict):
        return False
    for f, lo in (('total', 1), ('reserved', 0), ('min_unit', 1),
                  ('max_unit', 1), ('step_size', 1)):
        if f in inv:
            x = inv[f]
            if isinstance(x, bool) or not isinstance(x, int) or \
                    not (lo <= x <= MAX_INT):
                return False
    if 'total' not in inv:
        return False
    if 'allocation_ratio' in inv:
        r = inv['allocation_ratio']
        if isinstance(r, bool) or not isinstance(r, (int, float)):
            return False
    return True


def _capacity_errors(v, inv):
    """(definite, possible): the documents say reserved may not exceed total
    (may not reach it below 1.26); the implementation applies that rule to
    the integer capacity, so a fractional ratio can make the verdict differ:
    both answers are accepted there."""
    inv = full_inventory(inv)
    total, res, ratio = inv['total'], inv['reserved'], inv['allocation_ratio']
    strict = v < (1, 26)
    documented = res > total or (strict and res >= total)
    cap = int((total - res) * ratio)
    integer_rule = (cap < 0) or (strict and cap <= 0)
    # e.g. reserved = total + 1 with ratio 0.5 or 0.0: int(-0.5) == 0, so
    # the integer rule lets through what the documented rule refuses
    return (documented and integer_rule), (documented != integer_rule)


def _usage(st, exclude=()):
    u = {}
    for (c, rp, rc), a in st.allocations.items():
        if c in exclude:
            continue
        u[(rp, rc)] = u.get((rp, rc), 0) + a
    return u


# ---------------------------------------------------------------- writes
def predict(d, req, cfg):
    op = req['op']
    f = PREDICTORS.get(op)
    if f is None:
        return None
    return f(d, State(d), req, vt(req), cfg)


def p_create_rp(d, st, req, v, cfg):
    b = req['b']
    errors = set()
    if any(p['name'] == b['name'] for p in st.providers.values()) or \
            b['uuid'] in st.providers:
        errors.add(409)
    parent = b.get('parent_provider_uuid') if v >= (1, 14) else None
    if parent is not None and (parent not in st.providers or
                               parent == b['uuid']):
        errors.add(400)
    after = copy.deepcopy(st)
    after.providers[b['uuid']] = {'name': b['name'], 'parent': parent}
    ok = 200 if v >= (1, 20) else 201
    body = None
    if not errors and v >= (1, 20):
        body = {'uuid': b['uuid'], 'name': b['name'], 'generation': 0,
                'parent_provider_uuid': parent,
                'root_provider_uuid': after.root(b['uuid'])}
    return Pred(ok, errors, after, body)


def p_update_rp(d, st, req, v, cfg):
    u = req['target']
    b = req['b']
    if u not in st.providers:
        return Pred(200, {404})
    errors = set()
    if any(p['name'] == b['name'] and x != u
           for x, p in st.providers.items()):
        errors.add(409)
    cur = st.providers[u]['parent']
    new = cur
    if v >= (1, 14) and 'parent_provider_uuid' in b:
        new = b['parent_provider_uuid']
        if new is not None and new not in st.providers:
            errors.add(400)
        elif new is not None and (new == u or
                                  new in gen.descendants(d, u)):
            errors.add(400)
        elif v < (1, 37) and cur is not None and new != cur:
            errors.add(400)
    after = copy.deepcopy(st)
    after.providers[u] = {'name': b['name'], 'parent': new}
    body = None
    if not errors:
        body = {'uuid': u, 'name': b['name']}
        if v >= (1, 14):
            body['parent_provider_uuid'] = new
            body['root_provider_uuid'] = after.root(u)
    return Pred(200, errors, after, body)


def p_delete_rp(d, st, req, v, cfg):
    u = req['target']
    if u not in st.providers:
        return Pred(204, {404})
    errors = set()
    if d.children(u) or any(rp == u for (_c, rp, _k) in st.allocations):
        errors.add(409)
    after = copy.deepcopy(st)
    del after.providers[u]
    after.inventories = {k: i for k, i in after.inventories.items()
                         if k[0] != u}
    after.rp_traits = {k for k in after.rp_traits if k[0] != u}
    after.rp_aggs = {k for k in after.rp_aggs if k[0] != u}
    return Pred(204, errors, after)


def _gen_of(d, u):
    return d.providers[u]['generation']


def p_put_inventories(d, st, req, v, cfg):
    u = req['target']
    b = req['b']
    if u not in st.providers:
        return Pred(200, {404})
    invs = b.get('inventories')
    if not isinstance(invs, dict) or \
            not all(_schema_ok_inventory(i) for i in invs.values()):
        return Pred(200, {400})
    errors = set()
    also = set()
    if b['resource_provider_generation'] != _gen_of(d, u):
        errors.add(409)
    for rc, inv in invs.items():
        if rc not in st.classes:
            errors.add(400)
        definite, possible = _capacity_errors(v, inv)
        if definite:
            errors.add(400)
        if possible:
            also.add(400)
    usage = _usage(st)
    for (rp, rc) in st.inventories:
        if rp == u and rc not in invs and usage.get((rp, rc), 0) > 0:
            errors.add(409)
    after = copy.deepcopy(st)
    after.inventories = {k: i for k, i in after.inventories.items()
                         if k[0] != u}
    for rc, inv in invs.items():
        after.inventories[(u, rc)] = full_inventory(inv)
    body = None
    if not errors:
        body = {'inventories': {rc: full_inventory(i)
                                for rc, i in invs.items()}}
    return Pred(200, errors, after, body, also=also)


def p_post_inventory(d, st, req, v, cfg):
    u = req['target']
    b = dict(req['b'])
    if u not in st.providers:
        return Pred(201, {404})
    rc = b.pop('resource_class')
    if not _schema_ok_inventory(b):
        return Pred(201, {400})
    errors = set()
    also = set()
    if rc not in st.classes:
        errors.add(400)
    if (u, rc) in st.inventories:
        errors.add(409)
    definite, possible = _capacity_errors(v, b)
    if definite:
        errors.add(400)
    if possible:
        also.add(400)
    after = copy.deepcopy(st)
    after.inventories[(u, rc)] = full_inventory(b)
    body = None if errors else dict(full_inventory(b))
    return Pred(201, errors, after, body, also=also)


def p_put_inventory(d, st, req, v, cfg):
    u = req['target']
    b = dict(req['b'])
    rc = req['p'].split('/')[-1]
    if u not in st.providers:
        return Pred(200, {404})
    g = b.pop('resource_provider_generation', None)
    if not _schema_ok_inventory(b):
        return Pred(200, {400})
    errors = set()
    also = set()
    if g != _gen_of(d, u):
        errors.add(409)
    if rc not in st.classes or (u, rc) not in st.inventories:
        # the API reference lists 400 and 404 for this operation without
        # saying which applies to an unknown class / a missing inventory
        errors |= {400, 404}
    definite, possible = _capacity_errors(v, b)
    if definite:
        errors.add(400)
    if possible:
        also.add(400)
    after = copy.deepcopy(st)
    after.inventories[(u, rc)] = full_inventory(b)
    body = None if errors else dict(full_inventory(b))
    return Pred(200, errors, after, body, also=also)


def p_delete_inventory(d, st, req, v, cfg):
    u = req['target']
    rc = req['p'].split('/')[-1]
    if u not in st.providers or (u, rc) not in st.inventories:
        return Pred(204, {404})
    errors = set()
    if _usage(st).get((u, rc), 0) > 0:
        errors.add(409)
    after = copy.deepcopy(st)
    del after.inventories[(u, rc)]
    return Pred(204, errors, after)


def p_delete_inventories(d, st, req, v, cfg):
    u = req['target']
    if v < (1, 5):
        return Pred(204, {405})
    if u not in st.providers:
        return Pred(204, {404})
    errors = set()
    if any(rp == u for (_c, rp, _k) in st.allocations):
        errors.add(409)
    after = copy.deepcopy(st)
    after.inventories = {k: i for k, i in after.inventories.items()
                         if k[0] != u}
    return Pred(204, errors, after)


def p_put_rp_traits(d, st, req, v, cfg):
    u = req['target']
    b = req['b']
    if v < (1, 6):
        return Pred(200, {404})
    if u not in st.providers:
        return Pred(200, {404})
    errors = set()
    if b['resource_provider_generation'] != _gen_of(d, u):
        errors.add(409)
    if any(t not in st.traits for t in b['traits']):
        errors.add(400)
    after = copy.deepcopy(st)
    after.rp_traits = {k for k in after.rp_traits if k[0] != u} | \
        {(u, t) for t in b['traits']}
    body = None if errors else {'traits': sorted(set(b['traits']))}
    return Pred(200, errors, after, body)


def p_delete_rp_traits(d, st, req, v, cfg):
    u = req['target']
    if v < (1, 6) or u not in st.providers:
        return Pred(204, {404})
    after = copy.deepcopy(st)
    after.rp_traits = {k for k in after.rp_traits if k[0] != u}
    return Pred(204, set(), after)


def p_put_rp_aggregates(d, st, req, v, cfg):
    u = req['target']
    b = req['b']
    if v < (1, 1) or u not in st.providers:
        return Pred(200, {404})
    errors = set()
    if v >= (1, 19):
        if not isinstance(b, dict):
            return Pred(200, {400})
        if b['resource_provider_generation'] != _gen_of(d, u):
            errors.add(409)
        aggs = b['aggregates']
    else:
        if not isinstance(b, list):
            return Pred(200, {400})
        aggs = b
    after = copy.deepcopy(st)
    after.rp_aggs = {k for k in after.rp_aggs if k[0] != u} | \
        {(u, a) for a in aggs}
    body = None if errors else {'aggregates': sorted(set(aggs))}
    return Pred(200, errors, after, body)


def p_put_trait(d, st, req, v, cfg):
    name = req['p'].split('/')[-1]
    if v < (1, 6):
        return Pred(201, {404})
    after = copy.deepcopy(st)
    after.traits.add(name)
    return Pred(204 if name in st.traits else 201, set(), after)


def p_delete_trait(d, st, req, v, cfg):
    name = req['p'].split('/')[-1]
    if v < (1, 6) or name not in st.traits:
        return Pred(204, {404})
    errors = set()
    if not name.startswith('CUSTOM_'):
        errors.add(400)
    if any(t == name for (_p, t) in st.rp_traits):
        errors.add(409)
    after = copy.deepcopy(st)
    after.traits.discard(name)
    return Pred(204, errors, after)


def p_put_class(d, st, req, v, cfg):
    name = req['p'].split('/')[-1]
    if v < (1, 2):
        return Pred(201, {404})
    after = copy.deepcopy(st)
    after.classes.add(name)
    return Pred(204 if name in st.classes else 201, set(), after)


def p_post_class(d, st, req, v, cfg):
    name = req['b']['name']
    if v < (1, 2):
        return Pred(201, {404})
    errors = {409} if name in st.classes else set()
    after = copy.deepcopy(st)
    after.classes.add(name)
    return Pred(201, errors, after)


def p_delete_class(d, st, req, v, cfg):
    name = req['p'].split('/')[-1]
    if v < (1, 2) or name not in st.classes:
        return Pred(204, {404})
    errors = set()
    if not name.startswith('CUSTOM_'):
        errors.add(400)
    if any(rc == name for (_p, rc) in st.inventories):
        errors.add(409)
    after = copy.deepcopy(st)
    after.classes.discard(name)
    return Pred(204, errors, after)


# ------------------------------------------------------------ allocations
def _entries(req, v):
    """{consumer: {'allocations': {rp: {rc: amount}}, project_id, user_id,
    consumer_generation, consumer_type}} in one shape for all versions."""
    op = req['op']
    b = req['b']
    if op == 'put_allocations':
        c = req['p'].split('/')[-1]
        a = b['allocations']
        if isinstance(a, list):
            amap = {}
            for e in a:
                amap[e['resource_provider']['uuid']] = dict(e['resources'])
        else:
            amap = {rp: dict(x['resources']) for rp, x in a.items()}
        e = dict(b)
        e['allocations'] = amap
        return {c: e}
    body = b if op == 'post_allocations' else b['allocations']
    out = {}
    for c, entry in body.items():
        e = dict(entry)
        e['allocations'] = {rp: dict(x['resources'])
                            for rp, x in entry['allocations'].items()}
        out[c] = e
    return out


def _alloc_write(d, st, entries, v, cfg, inventories=None, errors=None):
    """Common meaning of PUT/POST allocations and the allocation part of a
    reshape: every named consumer's allocations are replaced."""
    errors = set() if errors is None else errors
    inventories = st.inventories if inventories is None else inventories
    named = set(entries)
    if v >= (1, 28):
        for c, e in entries.items():
            cur = d.consumers.get(c)
            want = cur['generation'] if cur else None
            if e.get('consumer_generation') != want:
                errors.add(409)
    base = _usage(st, exclude=named)
    add = {}
    for c, e in entries.items():
        for rp, res in e['allocations'].items():
            if rp not in st.providers:
                errors.add(400)
                continue
            for rc, amt in res.items():
                if rc not in st.classes:
                    errors.add(400)
                    continue
                inv = inventories.get((rp, rc))
                if inv is None:
                    errors.add(409)
                    continue
                if amt < inv['min_unit'] or amt > inv['max_unit'] or \
                        amt % inv['step_size'] != 0:
                    errors.add(409)
                add[(rp, rc)] = add.get((rp, rc), 0) + amt
    for k, a in add.items():
        inv = inventories[k]
        cap = (inv['total'] - inv['reserved']) * inv['allocation_ratio']
        if base.get(k, 0) + a > cap:
            errors.add(409)
    after = copy.deepcopy(st)
    after.allocations = {k: a for k, a in after.allocations.items()
                         if k[0] not in named}
    for c, e in entries.items():
        placed = False
        for rp, res in e['allocations'].items():
            for rc, amt in res.items():
                after.allocations[(c, rp, rc)] = amt
                placed = True
        if not placed:
            after.consumers.pop(c, None)
            continue
        old = st.consumers.get(c)
        if v >= (1, 8):
            proj, user = e['project_id'], e['user_id']
        else:
            proj = cfg.incomplete_consumer_project_id
            user = cfg.incomplete_consumer_user_id
        if v >= (1, 38):
            ctype = e['consumer_type']
        else:
            ctype = old['type'] if old else None
        after.consumers[c] = {'project': proj, 'user': user, 'type': ctype}
    return errors, after


def p_put_allocations(d, st, req, v, cfg):
    entries = _entries(req, v)
    (c, e), = entries.items()
    if v < (1, 28) and not e['allocations']:
        return Pred(204, {400})
    errors, after = _alloc_write(d, st, entries, v, cfg)
    return Pred(204, errors, after)


def p_post_allocations(d, st, req, v, cfg):
    if v < (1, 13):
        return Pred(204, {404})
    entries = _entries(req, v)
    # version history 1.13: an entry with empty allocations removes that
    # consumer's allocations (allowed in POST at every version)
    errors, after = _alloc_write(d, st, entries, v, cfg)
    return Pred(204, errors, after)


def p_delete_allocations(d, st, req, v, cfg):
    c = req['p'].split('/')[-1]
    if not any(k[0] == c for k in st.allocations):
        return Pred(204, {404})
    after = copy.deepcopy(st)
    after.allocations = {k: a for k, a in after.allocations.items()
                         if k[0] != c}
    after.consumers.pop(c, None)
    return Pred(204, set(), after)


def p_reshaper(d, st, req, v, cfg):
    if v < (1, 30):
        return Pred(204, {404})
    b = req['b']
    errors = set()
    also = set()
    new_inv = dict(st.inventories)
    interim = dict(st.inventories)
    for u, x in b['inventories'].items():
        if u not in st.providers:
            errors.add(400)
            continue
        if not all(_schema_ok_inventory(i) for i in x['inventories'].values()):
            return Pred(204, {400})
        if x['resource_provider_generation'] != _gen_of(d, u):
            errors.add(409)
        for k in [k for k in new_inv if k[0] == u]:
            del new_inv[k]
        for rc, inv in x['inventories'].items():
            if rc not in st.classes:
                errors.add(400)
            # the reshaper documents refer to the inventory format of PUT
            # inventories without saying whether its "reserved may not exceed
            # total" rule applies: accepted and 400 are both allowed there
            definite, possible = _capacity_errors(v, inv)
            if definite or possible:
                also.add(400)
            new_inv[(u, rc)] = full_inventory(inv)
            interim[(u, rc)] = full_inventory(inv)
    entries = _entries(req, v)
    # allocations are written against the union of old and new inventory
    # (api-ref: "inventories and allocations are replaced atomically"); a
    # class that is dropped while allocations remain on it is "in use"
    errors, after = _alloc_write(d, st, entries, v, cfg,
                                 inventories=interim, errors=errors)
    after.inventories = new_inv
    for (c, rp, rc) in after.allocations:
        if (rp, rc) not in new_inv:
            errors.add(409)
    return Pred(204, errors, after, also=also)


PREDICTORS = {
    'create_rp': p_create_rp, 'update_rp': p_update_rp,
    'delete_rp': p_delete_rp, 'put_inventories': p_put_inventories,
    'post_inventory': p_post_inventory, 'put_inventory': p_put_inventory,
    'delete_inventory': p_delete_inventory,
    'delete_inventories': p_delete_inventories,
    'put_rp_traits': p_put_rp_traits, 'delete_rp_traits': p_delete_rp_traits,
    'put_rp_aggregates': p_put_rp_aggregates, 'put_trait': p_put_trait,
    'delete_trait': p_delete_trait, 'put_class': p_put_class,
    'post_class': p_post_class, 'delete_class': p_delete_class,
    'put_allocations': p_put_allocations,
    'post_allocations': p_post_allocations,
    'delete_allocations': p_delete_allocations, 'reshaper': p_reshaper,
}


# ------------------------------------------------------------------ reads
def links_for(v):
    rels = ['self', 'inventories', 'usages']
    if v >= (1, 1):
        rels.append('aggregates')
    if v >= (1, 6):
        rels.append('traits')
    if v >= (1, 11):
        rels.append('allocations')
    return sorted(rels)


def provider_view(d, u, v):
    p = d.providers[u]
    out = {'uuid': u, 'name': p['name'], 'generation': p['generation'],
           'links': links_for(v)}
    if v >= (1, 14):
        out['parent_provider_uuid'] = p['parent']
        out['root_provider_uuid'] = d.computed_root(u)
    return out


def norm_provider(j):
    out = {k: j[k] for k in j if k != 'links'}
    out['links'] = sorted(x['rel'] for x in j.get('links', []))
    return out


def view(d, req):
    """(status, semantic body or None) for a GET built by c11's read
    builder; None status = the model does not judge this request."""
    v = vt(req)
    parts = urlsplit(req['p'])
    path = parts.path
    q = parse_qs(parts.query, keep_blank_values=True)
    seg = [s for s in path.split('/') if s]
    if seg[0] == 'resource_providers':
        if len(seg) == 1:
            provs = sorted(d.providers)
            if 'in_tree' in q:
                if v < (1, 14):
                    return 400, None
                t = q['in_tree'][0]
                root = d.computed_root(t) if t in d.providers else None
                provs = [u for u in provs
                         if root is not None and d.computed_root(u) == root]
            if 'name' in q:
                provs = [u for u in provs
                         if d.providers[u]['name'] == q['name'][0]]
            if 'uuid' in q:
                provs = [u for u in provs if u == q['uuid'][0]]
            return 200, {'resource_providers':
                         {u: provider_view(d, u, v) for u in provs}}
        u = seg[1]
        if u not in d.providers:
            return 404, None
        g = d.providers[u]['generation']
        if len(seg) == 2:
            return 200, provider_view(d, u, v)
        sub = seg[2]
        if sub == 'inventories' and len(seg) == 3:
            return 200, {'resource_provider_generation': g,
                         'inventories': {rc: dict(i) for (p, rc), i
                                         in d.inventories.items() if p == u}}
        if sub == 'inventories':
            inv = d.inventories.get((u, seg[3]))
            if inv is None:
                return 404, None
            out = dict(inv)
            out['resource_provider_generation'] = g
            return 200, out
        if sub == 'usages':
            usage = d.usage()
            return 200, {'resource_provider_generation': g,
                         'usages': {rc: usage.get((u, rc), 0)
                                    for (p, rc) in d.inventories if p == u}}
        if sub == 'aggregates':
            if v < (1, 1):
                return 404, None
            out = {'aggregates': sorted(a for (p, a) in d.rp_aggs if p == u)}
            if v >= (1, 19):
                out['resource_provider_generation'] = g
            return 200, out
        if sub == 'traits':
            if v < (1, 6):
                return 404, None
            return 200, {'resource_provider_generation': g,
                         'traits': sorted(t for (p, t) in d.rp_traits
                                          if p == u)}
        if sub == 'allocations':
            out = {}
            for (c, p, rc), a in d.allocations.items():
                if p != u:
                    continue
                e = out.setdefault(c, {'resources': {}})
                e['resources'][rc] = a
                if v >= (1, 28):
                    e['consumer_generation'] = d.consumers[c]['generation'] \
                        if c in d.consumers else None
            return 200, {'resource_provider_generation': g,
                         'allocations': out}
        return None, None
    if seg[0] == 'allocations' and len(seg) == 2:
        c = seg[1]
        out = {}
        for (cc, p, rc), a in d.allocations.items():
            if cc != c:
                continue
            e = out.setdefault(p, {'resources': {},
                                   'generation':
                                       d.providers[p]['generation']})
            e['resources'][rc] = a
        body = {'allocations': out}
        if out and v >= (1, 12):
            rec = d.consumers[c]
            body['project_id'] = rec['project']
            body['user_id'] = rec['user']
            if v >= (1, 28):
                body['consumer_generation'] = rec['generation']
            if v >= (1, 38):
                body['consumer_type'] = rec['type'] or 'unknown'
        return 200, body
    if seg[0] == 'traits' and len(seg) == 1:
        if v < (1, 6):
            return 404, None
        names = set(d.traits)
        if 'name' in q:
            val = q['name'][0]
            if val.startswith('in:'):
                names &= set(val[3:].split(','))
            elif val.startswith('startswith:'):
                names = {n for n in names if n.startswith(val[11:])}
            else:
                return 400, None
        if 'associated' in q:
            assoc = {t for (_p, t) in d.rp_traits}
            flag = q['associated'][0].lower()
            if flag == 'true':
                names &= assoc
            elif flag == 'false':
                names -= assoc
            else:
                return 400, None
        return 200, {'traits': sorted(names)}
    if seg[0] == 'traits' and len(seg) == 2:
        if v < (1, 6):
            return 404, None
        return (204 if seg[1] in d.traits else 404), None
    if seg[0] == 'resource_classes' and len(seg) == 1:
        if v < (1, 2):
            return 404, None
        return 200, {'resource_classes': sorted(d.classes)}
    if seg[0] == 'resource_classes' and len(seg) == 2:
        if v < (1, 2):
            return 404, None
        if seg[1] not in d.classes:
            return 404, None
        return 200, {'name': seg[1]}
    if seg[0] == 'usages':
        if v < (1, 9):
            return 404, None
        if 'project_id' not in q:
            return 400, None
        if 'consumer_type' in q and v < (1, 38):
            return 400, None
        proj = q['project_id'][0]
        user = q['user_id'][0] if 'user_id' in q else None
        cons = [c for c, x in d.consumers.items()
                if x['project'] == proj and (user is None or
                                             x['user'] == user)]
        if v < (1, 38):
            tot = {}
            for (c, _p, rc), a in d.allocations.items():
                if c in cons:
                    tot[rc] = tot.get(rc, 0) + a
            return 200, {'usages': tot}
        ctype = q['consumer_type'][0] if 'consumer_type' in q else None
        groups = {}
        for c in cons:
            t = d.consumers[c]['type']
            if ctype == 'all':
                key = 'all'
            elif ctype == 'unknown':
                if t is not None:
                    continue
                key = 'unknown'
            elif ctype is not None:
                if t != ctype:
                    continue
                key = ctype
            else:
                key = t or 'unknown'
            has = False
            for (cc, _p, rc), a in d.allocations.items():
                if cc == c:
                    g = groups.setdefault(key, {'consumer_count': 0})
                    g[rc] = g.get(rc, 0) + a
                    has = True
            if has:
                groups[key]['consumer_count'] += 1
        return 200, {'usages': groups}
    return None, None


def norm_read(req, j):
    """Bring a response body into the shape view() produces."""
    parts = urlsplit(req['p'])
    seg = [s for s in parts.path.split('/') if s]
    if seg[0] == 'resource_providers':
        if len(seg) == 1:
            return {'resource_providers': {
                p['uuid']: norm_provider(p)
                for p in j['resource_providers']},
                '_dups': len(j['resource_providers']) -
                len({p['uuid'] for p in j['resource_providers']})}
        if len(seg) == 2:
            return norm_provider(j)
        if seg[2] == 'aggregates':
            out = dict(j)
            out['aggregates'] = sorted(j['aggregates'])
            return out
        if seg[2] == 'traits':
            out = dict(j)
            out['traits'] = sorted(j['traits'])
            return out
        return j
    if seg[0] == 'traits' and len(seg) == 1:
        return {'traits': sorted(j['traits'])}
    if seg[0] == 'resource_classes' and len(seg) == 1:
        return {'resource_classes': sorted(x['name']
                                           for x in j['resource_classes'])}
    if seg[0] == 'resource_classes':
        return {'name': j.get('name')}
    return j
