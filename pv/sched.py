"""Engine C: a scheduler that owns the interleaving of 2-3 real request
threads at top-level-transaction granularity.

Each request runs in its own thread against the shared file database; a baton
guarantees that exactly one thread runs at a time.  Pool checkout/checkin
events tell the harness when a thread's count of checked-out connections
returns to zero, i.e. a top-level transaction ended.  Switches happen only at
those points (and at request start / end), so every transaction is atomic
and isolated and a run is a pure function of (snapshot, requests, schedule).
"""
import threading

from sqlalchemy import event

from pv import machine
from pv.dump import dump

_ACTIVE = {'sched': None}
_INSTALLED = {'done': False}


def install(svc):
    if _INSTALLED['done']:
        return
    _INSTALLED['done'] = True
    pool = svc.engine.pool

    @event.listens_for(pool, 'checkout')
    def _co(dbapi_con, rec, proxy):
        s = _ACTIVE['sched']
        if s is not None:
            s.on_checkout()

    @event.listens_for(pool, 'checkin')
    def _ci(dbapi_con, rec):
        s = _ACTIVE['sched']
        if s is not None:
            s.on_checkin()


class HarnessTimeout(Exception):
    pass


class Race(object):
    """One concurrent execution."""

    def __init__(self, svc, reqs, schedule, observe=True):
        self.svc = svc
        self.reqs = reqs                    # {name: request dict}
        self.names = sorted(reqs)
        self.schedule = list(schedule)
        self.observe = observe
        self.cv = threading.Condition()
        self.turn = None
        self.depth = {n: 0 for n in self.names}
        self.alive = {n: True for n in self.names}
        self.responses = {}
        self.errors = {}
        self.points = []        # [(thread, kind, Dump|None)]
        self.npoints = {n: 0 for n in self.names}

    # -- called from pool events, in the request thread -----------------
    def _me(self):
        n = threading.current_thread().name
        return n if n in self.depth else None

    def on_checkout(self):
        n = self._me()
        if n is not None:
            self.depth[n] += 1

    def on_checkin(self):
        n = self._me()
        if n is None:
            return
        self.depth[n] -= 1
        if self.depth[n] == 0:
            self.point(n, 'txn-end')

    # -- scheduling ---------------------------------------------------------
    def _pick(self, current):
        while self.schedule:
            nxt = self.schedule.pop(0)
            if self.alive.get(nxt):
                return nxt
        if current is not None and self.alive.get(current):
            return current
        for n in self.names:
            if self.alive[n]:
                return n
        return None

    def point(self, name, kind):
        """Thread `name` reached a scheduling point."""
        with self.cv:
            self.npoints[name] += 1
            snap = None
            if self.observe:
                snap = dump(self.svc.dbpath)
            self.points.append((name, kind, snap))
            if kind == 'end':
                self.alive[name] = False
            nxt = self._pick(name)
            self.turn = nxt
            self.cv.notify_all()
            if kind == 'end':
                return
            self._wait_turn(name)

    def _wait_turn(self, name):
        while self.turn != name:
            if not self.cv.wait(timeout=30):
                raise HarnessTimeout('thread %s starved' % name)

    def _worker(self, name):
        try:
            with self.cv:
                self._wait_turn(name)
            resp = machine.execute(self.svc, self.reqs[name])
            self.responses[name] = resp
        except BaseException as e:   # harness problem, reported by run()
            self.errors[name] = e
        finally:
            try:
                self.point(name, 'end')
            except BaseException as e:
                self.errors.setdefault(name, e)

    def run(self):
        install(self.svc)
        _ACTIVE['sched'] = self
        threads = [threading.Thread(target=self._worker, args=(n,), name=n,
                                    daemon=True) for n in self.names]
        try:
            for t in threads:
                t.start()
            with self.cv:
                self.turn = self._pick(None)
                self.cv.notify_all()
            for t in threads:
                t.join(timeout=60)
                if t.is_alive():
                    raise HarnessTimeout('thread %s did not finish' % t.name)
        finally:
            _ACTIVE['sched'] = None
        if self.errors:
            raise list(self.errors.values())[0]
        self.final = dump(self.svc.dbpath)
        return self

    # -- analysis -------------------------------------------------------------
    def commit_order(self, start):
        """Threads ordered by their last state-changing transaction."""
        last = {}
        prev = start
        for i, (name, kind, d) in enumerate(self.points):
            if d is None:
                continue
            if kind == 'txn-end' and noids(d) != noids(prev):
                last[name] = i
            prev = d
        return sorted(last, key=lambda n: last[n])

    def state_before_last_write(self, name, start):
        """Dump at the scheduling point immediately before `name`'s last
        state-changing transaction (None if it changed nothing)."""
        prev = start
        found = None
        for (n, kind, d) in self.points:
            if d is None:
                continue
            if n == name and kind == 'txn-end' and noids(d) != noids(prev):
                found = prev
            prev = d
        return found

    def interleaved(self, start):
        """True if some thread was preempted between two of its own
        transactions by a state-changing transaction of another thread."""
        seen_first = {}
        prev = start
        writes = []
        for i, (n, kind, d) in enumerate(self.points):
            if d is None:
                continue
            changed = kind == 'txn-end' and noids(d) != noids(prev)
            writes.append((n, changed))
            prev = d
        for name in self.names:
            idx = [i for i, (n, _c) in enumerate(writes) if n == name]
            if len(idx) < 2:
                continue
            lo, hi = idx[0], idx[-1]
            if any(n != name and c for (n, c) in writes[lo:hi]):
                return True
        return False


def noids(d):
    """Comparison view for serial equivalence: everything the properties
    name, without surrogate ids (a consumer created and removed by a losing
    request shifts later ids) and without auxiliary rows."""
    return {
        'providers': {u: (p['name'], p['generation'], p['parent'], p['root'])
                      for u, p in d.providers.items()},
        'inventories': d.inventories,
        'allocations': d.allocations,
        'consumers': {u: (c['generation'], c['project'], c['user'],
                          c['type']) for u, c in d.consumers.items()},
        'rp_traits': d.rp_traits,
        'rp_aggs': d.rp_aggs,
    }


def diff_noids(a, b):
    out = []
    na, nb = noids(a), noids(b)
    for k in na:
        va, vb = na[k], nb[k]
        if va == vb:
            continue
        if isinstance(va, dict):
            for kk in sorted(set(va) | set(vb), key=repr):
                if va.get(kk) != vb.get(kk):
                    out.append('%s[%s]: %r vs %r' % (k, kk, va.get(kk),
                                                     vb.get(kk)))
        else:
            out.extend('%s: only-first %r' % (k, x) for x in sorted(va - vb))
            out.extend('%s: only-second %r' % (k, x) for x in sorted(vb - va))
    return out


def count_points(svc, snap, req):
    """Number of scheduling points of a request run alone."""
    svc.restore(snap)
    r = Race(svc, {'A': req}, [], observe=False).run()
    return r.npoints['A'], r.responses['A']


def write_points(svc, snap, req):
    """1-based indices of the scheduling points of a request (run alone)
    that end a state-changing transaction."""
    svc.restore(snap)
    start = dump(svc.dbpath)
    r = Race(svc, {'A': req}, [], observe=True).run()
    out = []
    prev = start
    i = 0
    for (_n, kind, d) in r.points:
        if d is None:
            continue
        if kind == 'txn-end':
            i += 1
            if d.core() != prev.core() or d.projects != prev.projects or \
                    d.users != prev.users or d.ctypes != prev.ctypes:
                out.append(i)
        prev = d
    return out


def serial(svc, snap, reqs, order):
    """Run the named requests one after another; returns (responses, dump)."""
    svc.restore(snap)
    out = {}
    for n in order:
        out[n] = machine.execute(svc, reqs[n])
    return out, dump(svc.dbpath)
