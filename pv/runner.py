"""Check runner: forks worker processes, merges results, writes evidence.

Protocol: a property module `pv.props.cNN` defines
    LEVEL            'exploration' | 'fault_enumeration'
    RULE             text of the generation / non-triviality rule
    ASSUMPTIONS      list of strings
    WORKERS          optional {'quick': n, 'thorough': n}
    run_worker(ctx)  -> None; fills ctx.stats (a Stats)
    replay(data)     -> list of violation dicts (empty = not reproduced)
A worker is this same interpreter re-executed (`-m pv.runner --worker ...`)
so that every worker has its own engine, its own tmpfs database and
PYTHONHASHSEED=0.
"""
import hashlib
import importlib
import json
import os
import subprocess
import sys
import tempfile
import time
import traceback

HERE = os.path.dirname(os.path.dirname(os.path.abspath(__file__)))
# PV_OUT_DIR: where evidence/ and replays/ go (default: beside the code);
# sensitivity runs against patched copies point it elsewhere so that they
# never overwrite the evidence of the real tree
OUT = os.environ.get('PV_OUT_DIR') or HERE
EVIDENCE_DIR = os.path.join(OUT, 'evidence')
REPLAY_DIR = os.path.join(OUT, 'replays')
KNOWN_FILE = os.path.join(HERE, 'known_findings.json')
NCPU = 16


def stable_hash(obj):
    return hashlib.sha1(json.dumps(obj, sort_keys=True, default=str)
                        .encode('utf-8')).hexdigest()[:16]


def derive_seed(base, prop, idx):
    h = hashlib.sha256(('%s/%s/%s' % (base, prop, idx)).encode()).digest()
    return int.from_bytes(h[:4], 'big')


class Violation(Exception):
    """Raised by an oracle.  signature: small dict identifying the root
    cause shape; detail: free-form JSON-able description."""

    def __init__(self, signature, detail=None):
        Exception.__init__(self, json.dumps(signature, sort_keys=True,
                                            default=str))
        self.signature = signature
        self.detail = detail


class Stats(object):
    MAX_SAMPLES = 6
    MAX_NONTRIVIAL = 200000

    def __init__(self):
        self.evaluations = 0
        self.nontrivial = set()
        self.samples = []
        self.hist = {}
        self.violations = []      # [{'signature', 'detail', 'replay'}]
        self.known = {}           # finding id -> count
        self.excluded = {}        # reason -> count
        self.notes = []
        self.extra = {}

    def count(self, key, n=1):
        self.hist[key] = self.hist.get(key, 0) + n

    def nontriv(self, obj):
        if len(self.nontrivial) < self.MAX_NONTRIVIAL:
            self.nontrivial.add(obj if isinstance(obj, str) and len(obj) == 16
                                else stable_hash(obj))

    def sample(self, obj, force=False):
        if force or len(self.samples) < self.MAX_SAMPLES:
            self.samples.append(obj)

    def to_json(self):
        return {
            'evaluations': self.evaluations,
            'nontrivial': sorted(self.nontrivial),
            'samples': self.samples[:self.MAX_SAMPLES * 2],
            'hist': self.hist,
            'violations': self.violations,
            'known': self.known,
            'excluded': self.excluded,
            'notes': self.notes,
            'extra': self.extra,
        }


class Ctx(object):
    def __init__(self, prop, tier, seed, idx, nworkers):
        self.prop = prop
        self.tier = tier
        self.base_seed = seed
        self.idx = idx
        self.nworkers = nworkers
        self.seed = derive_seed(seed, prop, idx)
        self.stats = Stats()
        self.known = KnownFindings(prop)

    @property
    def thorough(self):
        return self.tier == 'thorough'

    def pick(self, quick, thorough):
        return thorough if self.thorough else quick


class KnownFindings(object):
    """known_findings.json: {"findings": [{"id", "property", "match": {...},
    "description"}], "fixed": ["fixed: property=.. <commit> <what>"]}.
    A finding matches a violation signature when every key of `match` is
    present in the signature with an equal value (lists: signature value must
    be in the list)."""

    def __init__(self, prop):
        self.entries = []
        try:
            with open(KNOWN_FILE) as f:
                data = json.load(f)
        except FileNotFoundError:
            data = {}
        for e in data.get('findings', []):
            if e.get('property') == prop:
                self.entries.append(e)

    def match(self, signature):
        for e in self.entries:
            ok = True
            for k, v in e['match'].items():
                sv = signature.get(k, None)
                if isinstance(v, list):
                    if sv not in v:
                        ok = False
                        break
                elif sv != v:
                    ok = False
                    break
            if ok:
                return e
        return None


def _load(prop):
    return importlib.import_module('pv.props.%s' % prop.lower())


REGRESS_DIR = os.path.join(HERE, 'regress')


def run_regression_inputs(ctx, mod):
    """Replay tier: saved inputs (shrunk failures met while developing the
    checks - against the tree before its fixes and against seeded or mutated
    copies) are re-executed through the property's replay function; on a
    tree where the property holds none of them reproduces."""
    d = os.path.join(REGRESS_DIR, ctx.prop)
    if not os.path.isdir(d):
        return
    for name in sorted(os.listdir(d)):
        if not name.endswith('.json'):
            continue
        path = os.path.join(d, name)
        with open(path) as f:
            data = json.load(f)
        try:
            vios = mod.replay(ctx, data['replay'])
        except Violation as v:
            vios = [{'signature': v.signature, 'detail': v.detail}]
        ctx.stats.count('regression inputs replayed')
        ctx.stats.evaluations += 1
        for v in vios or []:
            sig = dict(v['signature'])
            sig.setdefault('prop', ctx.prop)
            if ctx.known.match(sig) is not None:
                continue
            ctx.stats.violations.append(
                {'signature': sig, 'detail': v.get('detail'),
                 'replay': data['replay'], 'regression_input': name})


def worker_main(argv):
    prop, tier, seed, idx, n, out = argv
    ctx = Ctx(prop, tier, int(seed), int(idx), int(n))
    mod = _load(prop)
    res = {'ok': True}
    t0 = time.time()
    try:
        if ctx.idx == 0:
            run_regression_inputs(ctx, mod)
        mod.run_worker(ctx)
    except Exception:
        res['ok'] = False
        res['error'] = traceback.format_exc()
    res['stats'] = ctx.stats.to_json()
    res['wall'] = time.time() - t0
    with open(out, 'w') as f:
        json.dump(res, f, default=str)
    os._exit(0)


def _spawn(prop, tier, seed, idx, n, out):
    env = dict(os.environ)
    env['PYTHONHASHSEED'] = '0'
    env['PYTHONPATH'] = HERE + os.pathsep + env.get('PYTHONPATH', '')
    env.setdefault('PV_REPO', '/repo')
    return subprocess.Popen(
        [sys.executable, '-m', 'pv.runner', '--worker', prop, tier,
         str(seed), str(idx), str(n), out],
        env=env, cwd=HERE, stdout=subprocess.DEVNULL, stderr=subprocess.PIPE)


def run_check(prop, tier, replay=None):
    mod = _load(prop)
    seed = int(os.environ.get('VERIF_SEED', '1') or '1')
    t0 = time.time()
    if replay:
        return run_replay(mod, prop, replay)
    nworkers = getattr(mod, 'WORKERS', {}).get(tier, NCPU)
    tmp = tempfile.mkdtemp(prefix='pv-run-', dir='/dev/shm'
                           if os.path.isdir('/dev/shm') else None)
    procs = []
    for i in range(nworkers):
        out = os.path.join(tmp, 'w%d.json' % i)
        procs.append((i, out, _spawn(prop, tier, seed, i, nworkers, out)))
    results = []
    harness_errors = []
    for i, out, p in procs:
        _, err = p.communicate()
        if not os.path.exists(out):
            harness_errors.append('worker %d died: rc=%s\n%s' % (
                i, p.returncode, err.decode('utf-8', 'replace')[-3000:]))
            continue
        with open(out) as f:
            r = json.load(f)
        if not r['ok']:
            harness_errors.append('worker %d: %s' % (i, r['error']))
        results.append(r)
    import shutil
    shutil.rmtree(tmp, ignore_errors=True)

    merged = Stats()
    nontriv = set()
    for r in results:
        s = r['stats']
        merged.evaluations += s['evaluations']
        nontriv.update(s['nontrivial'])
        for x in s['samples']:
            if len(merged.samples) < 8:
                merged.samples.append(x)
        for k, v in s['hist'].items():
            merged.hist[k] = merged.hist.get(k, 0) + v
        for k, v in s['known'].items():
            merged.known[k] = merged.known.get(k, 0) + v
        for k, v in s['excluded'].items():
            merged.excluded[k] = merged.excluded.get(k, 0) + v
        merged.violations.extend(s['violations'])
        merged.notes.extend(s['notes'])
        for k, v in s['extra'].items():
            if isinstance(v, (int, float)) and isinstance(
                    merged.extra.get(k, 0), (int, float)):
                merged.extra[k] = merged.extra.get(k, 0) + v
            else:
                merged.extra[k] = v

    # one replay file per distinct signature
    os.makedirs(REPLAY_DIR, exist_ok=True)
    by_sig = {}
    for v in merged.violations:
        key = stable_hash(v['signature'])
        if key not in by_sig or (len(json.dumps(v.get('replay'), default=str))
                                 < len(json.dumps(by_sig[key].get('replay'),
                                                  default=str))):
            by_sig[key] = v
    lines = []
    for key, v in sorted(by_sig.items()):
        path = os.path.join(REPLAY_DIR, '%s-%s.json' % (prop, key))
        with open(path, 'w') as f:
            json.dump({'property': prop, 'signature': v['signature'],
                       'detail': v.get('detail'), 'replay': v.get('replay')},
                      f, indent=1, default=str)
        lines.append('VIOLATION property=%s replay=%s' % (
            prop, os.path.relpath(path, OUT) if OUT == HERE else path))

    known = KnownFindings(prop)
    known_lines = []
    for e in known.entries:
        if merged.known.get(e['id'], 0):
            known_lines.append('KNOWN-FINDING: property=%s %s (%s; met %d times)'
                               % (prop, e['description'], e['id'],
                                  merged.known[e['id']]))

    wall = time.time() - t0
    os.makedirs(EVIDENCE_DIR, exist_ok=True)
    coverage = {
        'evaluations': merged.evaluations,
        'distinct_nontrivial': len(nontriv),
        'rule': mod.RULE,
        'samples': merged.samples,
        'histogram': dict(sorted(merged.hist.items())),
        'known_findings_met': merged.known,
        'excluded': merged.excluded,
        'workers': nworkers,
    }
    coverage.update(merged.extra)
    if getattr(mod, 'EXHAUSTIVE', False):
        coverage['exhaustive'] = True
    ev = {
        'property_id': prop,
        'tier': tier,
        'seed': seed,
        'level': mod.LEVEL,
        'coverage': coverage,
        'assumptions': getattr(mod, 'ASSUMPTIONS', []),
        'wall_s': round(wall, 2),
        'violations': len(by_sig),
    }
    if merged.notes:
        ev['coverage']['notes'] = merged.notes[:20]
    with open(os.path.join(EVIDENCE_DIR, '%s.json' % prop), 'w') as f:
        json.dump(ev, f, indent=1, default=str)

    print('%s tier=%s seed=%d evaluations=%d distinct_nontrivial=%d '
          'violations=%d wall=%.1fs' % (prop, tier, seed, merged.evaluations,
                                        len(nontriv), len(by_sig), wall))
    for k, v in sorted(merged.hist.items()):
        print('  %-50s %d' % (k, v))
    for k, v in sorted(merged.excluded.items()):
        print('  excluded %-41s %d' % (k, v))
    for ln in known_lines:
        print(ln)
    if harness_errors:
        for e in harness_errors:
            print('HARNESS-ERROR: %s' % e, file=sys.stderr)
        for ln in lines:
            print(ln)
        return 1 if lines else 2
    if lines:
        for ln in lines:
            print(ln)
        return 1
    min_nt = getattr(mod, 'MIN_NONTRIVIAL', 2)
    if len(nontriv) < min_nt or merged.evaluations < 1:
        print('INCONCLUSIVE: only %d non-trivial cases' % len(nontriv),
              file=sys.stderr)
        return 2
    return 0


def run_replay(mod, prop, path):
    with open(path) as f:
        data = json.load(f)
    env_ok = os.environ.get('PYTHONHASHSEED') == '0'
    if not env_ok:
        env = dict(os.environ)
        env['PYTHONHASHSEED'] = '0'
        os.execve(sys.executable, [sys.executable] + sys.argv, env)
    ctx = Ctx(prop, 'quick', 1, 0, 1)
    vios = mod.replay(ctx, data['replay'])
    if vios:
        for v in vios:
            print('reproduced: %s' % json.dumps(v['signature'], default=str))
            if v.get('detail') is not None:
                print('  detail: %s' % json.dumps(v['detail'], default=str)[:2000])
        print('VIOLATION property=%s replay=%s' % (prop, path))
        return 1
    print('%s: replay %s did not reproduce a violation' % (prop, path))
    return 0


def main(argv=None):
    argv = list(sys.argv[1:] if argv is None else argv)
    if argv and argv[0] == '--worker':
        worker_main(argv[1:])
        return 0
    import argparse
    ap = argparse.ArgumentParser(prog='check')
    ap.add_argument('prop')
    ap.add_argument('--tier', default=os.environ.get('VERIF_TIER') or 'quick',
                    choices=['quick', 'thorough'])
    ap.add_argument('--replay')
    a = ap.parse_args(argv)
    try:
        rc = run_check(a.prop.upper(), a.tier, a.replay)
    except SystemExit:
        raise
    except Exception:
        traceback.print_exc()
        print('HARNESS-ERROR: check crashed', file=sys.stderr)
        rc = 2
    return rc


if __name__ == '__main__':
    sys.exit(main())
