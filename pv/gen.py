"""Request builders.  Every random choice is a Hypothesis draw.

A request is a JSON-able dict:
  {'m': method, 'p': path, 'v': '1.N'|None, 'b': body|None, 'op': name,
   'labels': [...], 'tok': token|None, 'roles': [...]|None}
Builders receive `draw` (st.data().draw), the latest raw Dump `d`, and a
version tuple; they produce requests that are valid by construction for the
state in `d` unless a named defect is requested (recorded in labels).
"""
from hypothesis import strategies as st

MAX_INT = 2 ** 31 - 1

PROV = ['%08x-1111-4111-8111-%012x' % (i, i) for i in range(1, 9)]
CONS = ['c%07x-2222-4222-8222-%012x' % (i, i) for i in range(1, 7)]
AGGS = ['a%07x-3333-4333-8333-%012x' % (i, i) for i in range(1, 4)]
GHOST_RP = 'deadbeef-dead-4ead-8ead-deadbeefdead'
GHOST_AGG = 'a0000bad-3333-4333-8333-00000000dead'
# aggregate uuids in spellings the schema admits but that are not canonical
# (stored verbatim, so they are aggregates of their own)
ODD_AGGS = ['A0000009-3333-4333-8333-00000000000F',
            'a000000833334333833300000000000e']
CLASSES = ['VCPU', 'MEMORY_MB', 'DISK_GB', 'CUSTOM_PV_A']
CUSTOM_CLASS = 'CUSTOM_PV_A'
SHARING = 'MISC_SHARES_VIA_AGGREGATE'
TRAITS = [SHARING, 'HW_CPU_X86_AVX2', 'STORAGE_DISK_SSD', 'CUSTOM_PV_T']
CUSTOM_TRAIT = 'CUSTOM_PV_T'
PROJECTS = ['proj-a', 'proj-b']
USERS = ['user-a', 'user-b']
CTYPES = ['INSTANCE', 'MIGRATION']
RATIOS = [0.5, 1.0, 1.5, 2.0, 16.0, 0.29, 1.1, 0.0]


def vstr(v):
    return None if v is None else '%d.%d' % v


def vt(s):
    a, b = s.split('.')
    return (int(a), int(b))


def R(method, path, v, body=None, op=None, labels=(), **kw):
    r = {'m': method, 'p': path, 'v': vstr(v) if isinstance(v, tuple) else v,
         'b': body, 'op': op or '%s %s' % (method, path),
         'labels': list(labels)}
    r.update(kw)
    return r


def versions(lo=0, hi=39):
    return st.integers(lo, hi).map(lambda n: (1, n))


def biased_version(draw, lo=0, hi=39, boundaries=()):
    """Mostly latest / boundary-adjacent versions, sometimes any."""
    c = draw(st.integers(0, 9))
    cands = [b for b in boundaries if lo <= b <= hi] + \
            [b - 1 for b in boundaries if lo <= b - 1 <= hi]
    if c < 4 or not cands:
        if c < 2 or not cands:
            return (1, hi)
        return (1, draw(st.integers(lo, hi)))
    return (1, draw(st.sampled_from(sorted(set(cands)))))


# ---------------------------------------------------------------- helpers
def capacity(inv):
    return (inv['total'] - inv['reserved']) * inv['allocation_ratio']


def free_for(d, rp, rc, excluding=()):
    """capacity minus usage by consumers not in `excluding`."""
    inv = d.inventories[(rp, rc)]
    used = sum(u for (c, p, k), u in d.allocations.items()
               if p == rp and k == rc and c not in excluding)
    return capacity(inv) - used


def draw_amount(draw, d, rp, rc, consumer=None, fit=None):
    """Amount for an allocation on (rp, rc), biased to the boundaries."""
    inv = d.inventories.get((rp, rc))
    if inv is None:
        return draw(st.integers(1, 14))
    free = int(free_for(d, rp, rc, excluding=(consumer,) if consumer else ()))
    step, mn, mx = inv['step_size'], inv['min_unit'], inv['max_unit']
    good = [a for a in range(1, 40)
            if a % step == 0 and mn <= a <= mx and a <= free]
    if fit is None:
        fit = draw(st.integers(0, 9)) < 7
    if fit and good:
        c = draw(st.integers(0, 3))
        if c == 0:
            return good[-1]
        if c == 1:
            return good[0]
        return draw(st.sampled_from(good))
    cands = {free + 1, free, free - 1, mn - 1, mn, mx, mx + 1, step,
             step + 1, 2 * step, 1}
    if mx > 100:
        cands.discard(mx)
        cands.discard(mx + 1)
    cands = sorted(a for a in cands if 1 <= a <= 1000)
    return draw(st.sampled_from(cands or [1]))


def draw_inventory(draw, full=None):
    total = draw(st.integers(1, 12))
    inv = {'total': total}
    if full is None:
        full = draw(st.booleans())
    if full or draw(st.booleans()):
        inv['reserved'] = draw(st.integers(0, total)) \
            if draw(st.integers(0, 3)) == 0 else draw(st.integers(0, max(0, total // 3)))
    if full or draw(st.booleans()):
        inv['min_unit'] = draw(st.integers(1, 3))
    if full or draw(st.booleans()):
        inv['max_unit'] = draw(st.sampled_from(
            [1, 2, 3, 4, 6, 8, 12, total, MAX_INT]))
    if full or draw(st.booleans()):
        inv['step_size'] = draw(st.integers(1, 3))
    if full or draw(st.booleans()):
        if draw(st.integers(0, 4)) == 0:
            inv['allocation_ratio'] = draw(st.floats(
                0.05, 64, allow_nan=False, allow_infinity=False))
        else:
            inv['allocation_ratio'] = draw(st.sampled_from(RATIOS))
    return inv


def existing(d):
    return sorted(d.providers)


def free_uuids(d):
    return [u for u in PROV if u not in d.providers]


# --------------------------------------------------------------- providers
def create_rp(draw, d, v, parent='auto', defect=None):
    frees = free_uuids(d)
    uuid = frees[0] if frees else draw(st.sampled_from(PROV))
    name = 'n-' + uuid[:8] + draw(st.sampled_from(['', 'x', 'y']))
    body = {'name': name, 'uuid': uuid}
    labels = []
    if v >= (1, 14):
        ex = existing(d)
        if parent == 'auto':
            parent = draw(st.sampled_from(ex)) if ex and draw(
                st.integers(0, 9)) < 6 else None
        if defect == 'missing-parent':
            parent = GHOST_RP
            labels.append('missing-parent')
        elif defect == 'self-parent':
            parent = uuid
            labels.append('self-parent')
        if parent is not None or draw(st.booleans()):
            body['parent_provider_uuid'] = parent
    if defect == 'dup-name' and d.providers:
        body['name'] = draw(st.sampled_from(
            sorted(p['name'] for p in d.providers.values())))
        labels.append('dup-name')
    if defect == 'dup-uuid' and d.providers:
        body['uuid'] = draw(st.sampled_from(existing(d)))
        labels.append('dup-uuid')
    return R('POST', '/resource_providers', v, body, 'create_rp', labels)


def descendants(d, u):
    out, todo = set(), [u]
    while todo:
        x = todo.pop()
        for c in d.children(x):
            if c not in out:
                out.add(c)
                todo.append(c)
    return out


def update_rp(draw, d, v, kind=None):
    """kind: rename | first-parent | reparent | unparent | loop | self |
    missing-parent | same-parent"""
    ex = existing(d)
    u = draw(st.sampled_from(ex))
    p = d.providers[u]
    name = p['name']
    labels = []
    kinds = ['rename', 'same-parent', 'reparent', 'unparent', 'loop', 'self',
             'missing-parent', 'reparent', 'reparent']
    if kind is None:
        kind = draw(st.sampled_from(kinds))
    body = {'name': name}
    if kind == 'rename' or v < (1, 14):
        body['name'] = 'r-' + u[:8] + draw(st.sampled_from(['', 'a', 'b']))
        if v >= (1, 14) and draw(st.booleans()):
            body['parent_provider_uuid'] = p['parent']
        kind = 'rename'
    elif kind == 'same-parent':
        body['parent_provider_uuid'] = p['parent']
    elif kind == 'reparent':
        desc = descendants(d, u) | {u}
        cands = [x for x in ex if x not in desc and x != p['parent']]
        if not cands:
            body['parent_provider_uuid'] = p['parent']
            kind = 'same-parent'
        else:
            body['parent_provider_uuid'] = draw(st.sampled_from(cands))
            if p['parent'] is None:
                kind = 'first-parent'
    elif kind == 'unparent':
        body['parent_provider_uuid'] = None
        if p['parent'] is None:
            kind = 'same-parent'
    elif kind == 'loop':
        desc = sorted(descendants(d, u))
        if desc:
            body['parent_provider_uuid'] = draw(st.sampled_from(desc))
        else:
            body['parent_provider_uuid'] = u
            kind = 'self'
    elif kind == 'self':
        body['parent_provider_uuid'] = u
    elif kind == 'missing-parent':
        body['parent_provider_uuid'] = GHOST_RP
    if kind in ('loop', 'self', 'reparent', 'same-parent') and \
            body.get('parent_provider_uuid') and \
            draw(st.integers(0, 9)) < 2:
        # an unusual but schema-valid spelling of an existing provider's
        # UUID names no stored provider (UUIDs are stored canonically)
        pu = body['parent_provider_uuid']
        body['parent_provider_uuid'] = draw(st.sampled_from(
            [pu.upper(), pu.replace('-', '')]))
        labels.append('odd-spelling')
        kind = 'missing-parent'
    labels.append(kind)
    if kind in ('reparent', 'unparent', 'first-parent'):
        n = len(descendants(d, u)) + 1
        labels.append('subtree-%d' % min(n, 3))
    return R('PUT', '/resource_providers/' + u, v, body, 'update_rp', labels,
             target=u)


def delete_rp(draw, d, v, u=None):
    u = u or draw(st.sampled_from(existing(d) or [GHOST_RP]))
    labels = []
    if u in d.providers:
        if d.children(u):
            labels.append('has-children')
        if any(p == u for (_c, p, _k) in d.allocations):
            labels.append('has-allocations')
        if not labels:
            labels.append('free')
    else:
        labels.append('missing')
    return R('DELETE', '/resource_providers/' + u, v, None, 'delete_rp',
             labels, target=u)


# ------------------------------------------------------------- inventories
def _gen_for(draw, d, u, defect):
    g = d.providers[u]['generation'] if u in d.providers else 0
    if defect == 'stale-gen':
        return draw(st.sampled_from([g - 1, g + 1, 0 if g > 0 else g + 2,
                                     -1]))
    return g


def put_inventories(draw, d, v, u=None, defect=None, keep_used=None):
    u = u or draw(st.sampled_from(existing(d)))
    labels = []
    cur = sorted(rc for (p, rc) in d.inventories if p == u)
    used = sorted({rc for (_c, p, rc) in d.allocations if p == u})
    classes = set(draw(st.lists(st.sampled_from(CLASSES), max_size=4,
                                unique=True)))
    if keep_used is None:
        keep_used = draw(st.integers(0, 9)) < 7
    if keep_used:
        classes |= set(used)
    if defect == 'in-use' and used:
        classes.discard(draw(st.sampled_from(used)))
        labels.append('drops-in-use')
    elif set(used) - classes:
        labels.append('drops-in-use')
    if set(cur) - classes:
        labels.append('drops-class')
    invs = {}
    for rc in sorted(classes):
        if rc in cur and draw(st.integers(0, 3)) == 0:
            old = d.inventories[(u, rc)]
            invs[rc] = dict(old)
        else:
            invs[rc] = draw_inventory(draw)
    if defect == 'unknown-class':
        invs['CUSTOM_PV_NOPE'] = {'total': 1}
        labels.append('unknown-class')
    if defect == 'stale-gen':
        labels.append('stale-gen')
    if defect == 'reserved-exceeds-total' and invs:
        k = draw(st.sampled_from(sorted(invs)))
        invs[k] = dict(invs[k])
        invs[k]['reserved'] = invs[k]['total'] + draw(st.integers(0, 2))
        labels.append('reserved-exceeds-total')
    if defect == 'bad-schema':
        k = sorted(invs) and draw(st.sampled_from(sorted(invs)))
        if k:
            fld = draw(st.sampled_from(['total', 'total', 'reserved',
                                        'min_unit', 'max_unit', 'step_size']))
            bad = [-1, 'x', None, MAX_INT + 1, 1.5]
            if fld != 'reserved':
                bad.append(0)
            invs[k] = dict(invs[k])
            invs[k][fld] = draw(st.sampled_from(bad))
        else:
            invs = []
        labels.append('bad-schema')
    usage = d.usage()
    for rc, inv in invs.items() if isinstance(invs, dict) else ():
        if (u, rc) in usage and all(
                isinstance(inv.get(f, 1), (int, float)) and
                not isinstance(inv.get(f, 1), bool)
                for f in ('total', 'reserved', 'allocation_ratio')):
            full = dict(total=inv['total'], reserved=inv.get('reserved', 0),
                        allocation_ratio=inv.get('allocation_ratio', 1.0))
            if capacity(full) < usage[(u, rc)]:
                labels.append('shrinks-below-usage')
    body = {'resource_provider_generation': _gen_for(draw, d, u, defect),
            'inventories': invs}
    return R('PUT', '/resource_providers/%s/inventories' % u, v, body,
             'put_inventories', labels, target=u)


def post_inventory(draw, d, v, u=None, defect=None):
    u = u or draw(st.sampled_from(existing(d)))
    cur = {rc for (p, rc) in d.inventories if p == u}
    labels = []
    missing = [rc for rc in CLASSES if rc not in cur]
    if defect == 'exists' and cur:
        rc = draw(st.sampled_from(sorted(cur)))
        labels.append('exists')
    elif defect == 'unknown-class':
        rc = 'CUSTOM_PV_NOPE'
        labels.append('unknown-class')
    elif missing:
        rc = draw(st.sampled_from(missing))
    else:
        rc = draw(st.sampled_from(CLASSES))
        labels.append('exists')
    body = draw_inventory(draw)
    if defect == 'reserved-exceeds-total':
        body['reserved'] = body['total'] + draw(st.integers(0, 2))
        labels.append('reserved-exceeds-total')
    body['resource_class'] = rc
    return R('POST', '/resource_providers/%s/inventories' % u, v, body,
             'post_inventory', labels, target=u)


def put_inventory(draw, d, v, u=None, defect=None):
    pairs = sorted(d.inventories)
    labels = []
    if u is None and pairs and defect != 'no-inventory':
        u, rc = draw(st.sampled_from(pairs))
    else:
        u = u or draw(st.sampled_from(existing(d)))
        mine = sorted(rc for (p, rc) in d.inventories if p == u)
        if defect == 'no-inventory' or not mine:
            cand = [c for c in CLASSES if c not in mine] or CLASSES
            rc = draw(st.sampled_from(cand))
            if rc not in mine:
                labels.append('no-inventory')
        else:
            rc = draw(st.sampled_from(mine))
    if defect == 'unknown-class':
        rc = 'CUSTOM_PV_NOPE'
        labels.append('unknown-class')
    body = draw_inventory(draw)
    if defect == 'reserved-exceeds-total':
        body['reserved'] = body['total'] + draw(st.integers(0, 2))
        labels.append('reserved-exceeds-total')
    body['resource_provider_generation'] = _gen_for(draw, d, u, defect)
    if defect == 'stale-gen':
        labels.append('stale-gen')
    usage = d.usage()
    if (u, rc) in usage:
        full = dict(total=body['total'], reserved=body.get('reserved', 0),
                    allocation_ratio=body.get('allocation_ratio', 1.0))
        if capacity(full) < usage[(u, rc)]:
            labels.append('shrinks-below-usage')
    return R('PUT', '/resource_providers/%s/inventories/%s' % (u, rc), v,
             body, 'put_inventory', labels, target=u)


def delete_inventory(draw, d, v, defect=None):
    pairs = sorted(d.inventories)
    labels = []
    usage = d.usage()
    if defect == 'in-use':
        used = sorted(k for k in pairs if k in usage)
        if used:
            pairs = used
    if pairs and defect != 'no-inventory':
        u, rc = draw(st.sampled_from(pairs))
    else:
        u = draw(st.sampled_from(existing(d)))
        mine = {rc for (p, rc) in d.inventories if p == u}
        cand = [c for c in CLASSES if c not in mine] or CLASSES
        rc = draw(st.sampled_from(cand))
    if (u, rc) not in d.inventories:
        labels.append('no-inventory')
    elif (u, rc) in usage:
        labels.append('in-use')
    else:
        labels.append('free')
    return R('DELETE', '/resource_providers/%s/inventories/%s' % (u, rc), v,
             None, 'delete_inventory', labels, target=u)


def delete_inventories(draw, d, v, u=None):
    u = u or draw(st.sampled_from(existing(d)))
    labels = []
    if any(p == u for (_c, p, _k) in d.allocations):
        labels.append('in-use')
    elif any(p == u for (p, _rc) in d.inventories):
        labels.append('free')
    else:
        labels.append('empty')
    return R('DELETE', '/resource_providers/%s/inventories' % u, v, None,
             'delete_inventories', labels, target=u)


# ------------------------------------------------------ traits & aggregates
def put_rp_traits(draw, d, v, u=None, defect=None):
    u = u or draw(st.sampled_from(existing(d)))
    known = [t for t in TRAITS if t in d.traits]
    traits = draw(st.lists(st.sampled_from(known or TRAITS), max_size=4,
                           unique=True))
    labels = []
    cur = {t for (p, t) in d.rp_traits if p == u}
    if set(traits) == cur:
        labels.append('same-set')
    if defect == 'unknown-trait':
        traits.append('CUSTOM_PV_NOPE')
        labels.append('unknown-trait')
    if defect == 'stale-gen':
        labels.append('stale-gen')
    body = {'resource_provider_generation': _gen_for(draw, d, u, defect),
            'traits': traits}
    return R('PUT', '/resource_providers/%s/traits' % u, v, body,
             'put_rp_traits', labels, target=u)


def delete_rp_traits(draw, d, v, u=None):
    u = u or draw(st.sampled_from(existing(d)))
    cur = {t for (p, t) in d.rp_traits if p == u}
    return R('DELETE', '/resource_providers/%s/traits' % u, v, None,
             'delete_rp_traits', ['has-traits' if cur else 'no-traits'],
             target=u)


def put_rp_aggregates(draw, d, v, u=None, defect=None):
    u = u or draw(st.sampled_from(existing(d)))
    aggs = draw(st.lists(st.sampled_from(AGGS + AGGS + ODD_AGGS), max_size=3,
                         unique=True))
    labels = []
    cur = {a for (p, a) in d.rp_aggs if p == u}
    if set(aggs) == cur:
        labels.append('same-set')
    if v >= (1, 19):
        body = {'aggregates': aggs,
                'resource_provider_generation': _gen_for(draw, d, u, defect)}
        if defect == 'stale-gen':
            labels.append('stale-gen')
    else:
        body = aggs
    return R('PUT', '/resource_providers/%s/aggregates' % u, v, body,
             'put_rp_aggregates', labels, target=u)


def put_trait(draw, d, v, name=None):
    name = name or draw(st.sampled_from(
        [CUSTOM_TRAIT, 'CUSTOM_PV_U', 'CUSTOM_PV_V']))
    return R('PUT', '/traits/' + name, v, None, 'put_trait',
             ['exists' if name in d.traits else 'new'])


def delete_trait(draw, d, v, name=None):
    name = name or draw(st.sampled_from(
        [CUSTOM_TRAIT, 'CUSTOM_PV_U', 'CUSTOM_PV_V', 'HW_CPU_X86_AVX2']))
    labels = []
    if name not in d.traits:
        labels.append('missing')
    elif not name.startswith('CUSTOM_'):
        labels.append('standard')
    elif any(t == name for (_p, t) in d.rp_traits):
        labels.append('in-use')
    else:
        labels.append('free')
    return R('DELETE', '/traits/' + name, v, None, 'delete_trait', labels)


def put_class(draw, d, v, name=None):
    name = name or draw(st.sampled_from(
        [CUSTOM_CLASS, 'CUSTOM_PV_B', 'CUSTOM_PV_C']))
    return R('PUT', '/resource_classes/' + name, v, None, 'put_class',
             ['exists' if name in d.classes else 'new'])


def post_class(draw, d, v, name=None):
    name = name or draw(st.sampled_from(
        [CUSTOM_CLASS, 'CUSTOM_PV_B', 'CUSTOM_PV_C']))
    return R('POST', '/resource_classes', v, {'name': name}, 'post_class',
             ['exists' if name in d.classes else 'new'])


def delete_class(draw, d, v, name=None):
    name = name or draw(st.sampled_from(
        [CUSTOM_CLASS, 'CUSTOM_PV_B', 'CUSTOM_PV_C', 'VCPU']))
    labels = []
    if name not in d.classes:
        labels.append('missing')
    elif not name.startswith('CUSTOM_'):
        labels.append('standard')
    elif any(rc == name for (_p, rc) in d.inventories):
        labels.append('in-use')
    else:
        labels.append('free')
    return R('DELETE', '/resource_classes/' + name, v, None, 'delete_class',
             labels)


# -------------------------------------------------------------- allocations
def _draw_alloc_map(draw, d, consumer, defect=None, labels=None,
                    max_providers=3):
    """{rp: {'resources': {rc: amount}}} for one consumer."""
    labels = labels if labels is not None else []
    pairs = sorted(d.inventories)
    rps = sorted({p for (p, _rc) in pairs})
    out = {}
    if not rps:
        # nothing has inventory: will be rejected (missing inventory)
        ex = existing(d)
        if ex:
            out[draw(st.sampled_from(ex))] = {'resources': {
                draw(st.sampled_from(CLASSES)): 1}}
            labels.append('missing-inventory')
        return out
    chosen = draw(st.lists(st.sampled_from(rps), min_size=1,
                           max_size=max_providers, unique=True))
    usage = d.usage()
    for rp in chosen:
        mine = [rc for (p, rc) in pairs if p == rp]
        rcs = draw(st.lists(st.sampled_from(mine), min_size=1, max_size=3,
                            unique=True))
        res = {}
        for rc in rcs:
            a = draw_amount(draw, d, rp, rc, consumer)
            res[rc] = a
            inv = d.inventories[(rp, rc)]
            free = free_for(d, rp, rc, excluding=(consumer,))
            if abs(free - a) <= inv['step_size']:
                labels.append('near-capacity')
            if a in (inv['min_unit'], inv['max_unit'],
                     inv['min_unit'] - 1, inv['max_unit'] + 1):
                labels.append('unit-boundary')
            if a % inv['step_size']:
                labels.append('off-step')
            if usage.get((rp, rc), 0) > capacity(inv):
                labels.append('on-overcommitted')
        out[rp] = {'resources': res}
    if defect == 'unknown-provider':
        out[GHOST_RP] = {'resources': {'VCPU': 1}}
        labels.append('unknown-provider')
    elif defect == 'unknown-class':
        rp = draw(st.sampled_from(sorted(out)))
        out[rp]['resources']['CUSTOM_PV_NOPE'] = 1
        labels.append('unknown-class')
    elif defect == 'missing-inventory':
        ex = existing(d)
        cands = [(p, rc) for p in ex for rc in CLASSES
                 if (p, rc) not in d.inventories]
        if cands:
            p, rc = draw(st.sampled_from(cands))
            out.setdefault(p, {'resources': {}})['resources'][rc] = 1
            labels.append('missing-inventory')
    elif defect == 'over-capacity':
        rp = draw(st.sampled_from(sorted(out)))
        rc = draw(st.sampled_from(sorted(out[rp]['resources'])))
        out[rp]['resources'][rc] = int(
            free_for(d, rp, rc, excluding=(consumer,))) + 1
        if out[rp]['resources'][rc] < 1:
            out[rp]['resources'][rc] = 1
        labels.append('over-capacity')
    return out


def _consumer_fields(draw, d, v, consumer, body, defect=None, labels=None):
    labels = labels if labels is not None else []
    if v >= (1, 8):
        body['project_id'] = draw(st.sampled_from(PROJECTS))
        body['user_id'] = draw(st.sampled_from(USERS))
    if v >= (1, 28):
        cur = d.consumers.get(consumer)
        gen = cur['generation'] if cur else None
        if defect == 'stale-consumer-gen':
            gen = draw(st.sampled_from(
                [0, 1, 7] if cur is None else
                [None, cur['generation'] + 1, cur['generation'] - 1]))
            labels.append('stale-consumer-gen')
        body['consumer_generation'] = gen
    if v >= (1, 38):
        body['consumer_type'] = draw(st.sampled_from(CTYPES))
    if consumer not in d.consumers:
        labels.append('new-consumer')
    else:
        labels.append('replaces')


def put_allocations(draw, d, v, consumer=None, defect=None, clear=False):
    consumer = consumer or draw(st.sampled_from(CONS))
    labels = []
    same = False
    if clear and v >= (1, 28):
        amap = {}
        labels.append('clear')
    elif defect is None and consumer in d.consumers and \
            draw(st.integers(0, 7)) == 7:
        # the idempotent re-PUT of what the consumer already holds
        amap = {}
        for (c, rp, rc), a in d.allocations.items():
            if c == consumer:
                amap.setdefault(rp, {'resources': {}})['resources'][rc] = a
        labels.append('same-as-stored')
        same = True
    else:
        amap = _draw_alloc_map(draw, d, consumer, defect, labels)
    if v < (1, 12):
        entries = [
            {'resource_provider': {'uuid': rp}, 'resources': x['resources']}
            for rp, x in sorted(amap.items())]
        if entries and defect is None and draw(st.integers(0, 9)) == 9:
            # the same provider named by two list entries (the later one is
            # the one that counts)
            first = entries[0]
            other = {'resource_provider': first['resource_provider'],
                     'resources': {rc: max(1, a - 1) for rc, a
                                   in first['resources'].items()}}
            entries = [other] + entries
            labels.append('dup-provider-entry')
        body = {'allocations': entries}
    else:
        body = {'allocations': amap}
    _consumer_fields(draw, d, v, consumer, body, defect, labels)
    if same and v >= (1, 8):
        body['project_id'] = d.consumers[consumer]['project']
        body['user_id'] = d.consumers[consumer]['user']
    if len(amap) >= 2:
        labels.append('multi-provider')
    return R('PUT', '/allocations/' + consumer, v, body, 'put_allocations',
             labels, consumers=[consumer])


def post_allocations(draw, d, v, defect=None, consumers=None):
    chosen = bool(consumers)
    consumers = consumers or draw(st.lists(st.sampled_from(CONS), min_size=1,
                                           max_size=4, unique=True))
    labels = []
    if defect is None and not chosen and draw(st.integers(0, 9)) == 9:
        # a consumer key in a spelling the schema admits but that is not the
        # canonical one (upper case, or 36 hex digits without dashes): for
        # placement simply another consumer; not the first entry
        i = len(consumers) - 1
        odd = draw(st.sampled_from(
            [consumers[i].upper(),
             (consumers[i].replace('-', '') + 'abcd')[:36]]))
        if odd not in consumers and odd not in d.consumers:
            consumers = list(consumers[:i]) + [odd]
            labels.append('odd-consumer-uuid')
    body = {}
    bad_idx = draw(st.integers(0, len(consumers) - 1))
    seen_pairs = {}
    for i, c in enumerate(consumers):
        lab = []
        if c in d.consumers and draw(st.integers(0, 4)) == 0:
            amap = {}
            lab.append('clear')
        else:
            amap = _draw_alloc_map(
                draw, d, c,
                defect if (i == bad_idx and defect in (
                    'unknown-provider', 'unknown-class', 'missing-inventory',
                    'over-capacity')) else None, lab)
        entry = {'allocations': amap}
        _consumer_fields(
            draw, d, v, c, entry,
            defect if (i == bad_idx and defect == 'stale-consumer-gen')
            else None, lab)
        for rp, x in amap.items():
            for rc in x['resources']:
                seen_pairs[(rp, rc)] = seen_pairs.get((rp, rc), 0) + 1
        body[c] = entry
        labels.extend(lab)
    if any(n >= 2 for n in seen_pairs.values()):
        labels.append('shared-pair')
    if len(consumers) >= 2:
        labels.append('multi-consumer')
        if defect and bad_idx > 0:
            labels.append('defect-not-first')
    return R('POST', '/allocations', v, body, 'post_allocations',
             sorted(set(labels)), consumers=list(consumers))


def delete_allocations(draw, d, v, consumer=None):
    consumer = consumer or draw(st.sampled_from(CONS))
    has = any(c == consumer for (c, _p, _k) in d.allocations)
    return R('DELETE', '/allocations/' + consumer, v, None,
             'delete_allocations', ['has' if has else 'none'],
             consumers=[consumer])


def reshaper(draw, d, v, defect=None):
    """Move inventory (and the allocations on it) between providers, or
    rewrite inventories and allocations of 1-2 providers together."""
    ex = existing(d)
    labels = []
    used_rps = sorted({p for (_c, p, _k) in d.allocations})
    if defect == 'empties-used-provider' and used_rps:
        # a provider keeps its allocations (re-stated unchanged, or simply
        # not mentioned) while its inventory is replaced by nothing
        u = draw(st.sampled_from(used_rps))
        allocs = {}
        if draw(st.booleans()):
            for c in sorted({c for (c, p, _k) in d.allocations if p == u}):
                amap = {}
                for (cc, p, rc), a in d.allocations.items():
                    if cc == c:
                        amap.setdefault(p, {'resources': {}})[
                            'resources'][rc] = a
                entry = {'allocations': amap}
                _consumer_fields(draw, d, v, c, entry, None, [])
                allocs[c] = entry
        body = {'inventories': {u: {
            'resource_provider_generation': d.providers[u]['generation'],
            'inventories': {}}}, 'allocations': allocs}
        return R('POST', '/reshaper', v, body, 'reshaper',
                 ['empties-used-provider', 'drops-class'] +
                 (['with-allocations'] if allocs else []),
                 consumers=sorted(allocs), roles=['service'], tok='svc')
    rps = draw(st.lists(st.sampled_from(ex), min_size=1, max_size=2,
                        unique=True))
    inv_body = {}
    # new inventories
    newinv = {}
    for u in rps:
        cur = sorted(rc for (p, rc) in d.inventories if p == u)
        keep = [rc for rc in cur if draw(st.integers(0, 3)) > 0]
        add = draw(st.lists(st.sampled_from(CLASSES), max_size=2, unique=True))
        invs = {}
        for rc in sorted(set(keep) | set(add)):
            if rc in cur and draw(st.booleans()):
                invs[rc] = dict(d.inventories[(u, rc)])
            else:
                invs[rc] = draw_inventory(draw)
        if set(cur) - set(invs):
            labels.append('drops-class')
        newinv[u] = invs
        inv_body[u] = {
            'resource_provider_generation': _gen_for(draw, d, u, None),
            'inventories': invs}
    if defect == 'reserved-exceeds-total':
        # the reshaper schema (unlike PUT inventories' handler) lets reserved
        # exceed total: legal input whose capacity is negative
        cands = [(u, rc) for u in sorted(newinv) for rc in sorted(newinv[u])]
        if cands:
            u, rc = draw(st.sampled_from(cands))
            newinv[u][rc] = dict(newinv[u][rc])
            newinv[u][rc]['reserved'] = newinv[u][rc]['total'] + draw(
                st.integers(1, 3))
            inv_body[u]['inventories'] = newinv[u]
            labels.append('reserved-exceeds-total')
    if defect == 'stale-gen':
        # exactly one of the named providers carries a stale generation
        # (any position in the body)
        u = draw(st.sampled_from(sorted(inv_body)))
        inv_body[u]['resource_provider_generation'] = _gen_for(
            draw, d, u, 'stale-gen')
        if len(inv_body) > 1:
            inv_body = {k: inv_body[k] for k in (
                sorted(inv_body) if draw(st.booleans())
                else sorted(inv_body, reverse=True))}
        labels.append('stale-gen')
    if defect == 'unknown-provider-inv':
        inv_body[GHOST_RP] = {'resource_provider_generation': 0,
                              'inventories': {}}
        labels.append('unknown-provider-inv')
    # consumers touched: those with allocations on these providers (so that
    # dropped classes can be moved) plus sometimes a new one
    touched = sorted({c for (c, p, _k) in d.allocations if p in rps})
    if draw(st.integers(0, 2)) == 0:
        touched = sorted(set(touched) | {draw(st.sampled_from(CONS))})
    if touched and draw(st.integers(0, 5)) == 0:
        touched = touched[:-1]
    # view of the world after the inventory change, for amount drawing
    import copy as _copy
    d2 = _copy.copy(d)
    d2.inventories = dict(d.inventories)
    for u, invs in newinv.items():
        for rc in [rc for (p, rc) in d.inventories if p == u]:
            d2.inventories.pop((u, rc), None)
        for rc, inv in invs.items():
            full = {'total': inv['total'], 'reserved': inv.get('reserved', 0),
                    'min_unit': inv.get('min_unit', 1),
                    'max_unit': inv.get('max_unit', MAX_INT),
                    'step_size': inv.get('step_size', 1),
                    'allocation_ratio': inv.get('allocation_ratio', 1.0)}
            d2.inventories[(u, rc)] = full
    # allocations of touched consumers are replaced, so they do not count
    d2.allocations = {k: a for k, a in d.allocations.items()
                      if k[0] not in touched}
    allocs = {}
    for i, c in enumerate(touched):
        lab = []
        if c in d.consumers and draw(st.integers(0, 5)) == 0:
            amap = {}
            lab.append('clear')
        else:
            amap = _draw_alloc_map(
                draw, d2, c,
                defect if (i == 0 and defect in (
                    'unknown-provider', 'unknown-class', 'missing-inventory',
                    'over-capacity')) else None, lab)
            # later consumers see earlier ones' usage
            for rp, x in amap.items():
                for rc, a in x['resources'].items():
                    d2.allocations[(c, rp, rc)] = a
        entry = {'allocations': amap}
        _consumer_fields(
            draw, d, v, c, entry,
            defect if (i == 0 and defect == 'stale-consumer-gen') else None,
            lab)
        allocs[c] = entry
        labels.extend(lab)
    if allocs:
        labels.append('with-allocations')
    body = {'inventories': inv_body, 'allocations': allocs}
    return R('POST', '/reshaper', v, body, 'reshaper', sorted(set(labels)),
             consumers=list(touched), roles=['service'], tok='svc')


# --------------------------------------------------------------------- reads
def read(draw, d, v):
    ex = existing(d) or [GHOST_RP]
    u = draw(st.sampled_from(ex))
    c = draw(st.sampled_from(CONS))
    kind = draw(st.sampled_from(
        ['rp', 'rps', 'inv', 'inv1', 'usages', 'aggs', 'traits', 'rp_allocs',
         'allocs', 'all_traits', 'classes', 'tot_usages', 'in_tree']))
    if kind == 'rp':
        p = '/resource_providers/' + u
    elif kind == 'rps':
        p = '/resource_providers'
    elif kind == 'in_tree':
        p = '/resource_providers?in_tree=' + u
        if v < (1, 14):
            p = '/resource_providers'
    elif kind == 'inv':
        p = '/resource_providers/%s/inventories' % u
    elif kind == 'inv1':
        p = '/resource_providers/%s/inventories/%s' % (
            u, draw(st.sampled_from(CLASSES)))
    elif kind == 'usages':
        p = '/resource_providers/%s/usages' % u
    elif kind == 'aggs':
        p = '/resource_providers/%s/aggregates' % u
    elif kind == 'traits':
        p = '/resource_providers/%s/traits' % u
    elif kind == 'rp_allocs':
        p = '/resource_providers/%s/allocations' % u
    elif kind == 'allocs':
        p = '/allocations/' + c
    elif kind == 'all_traits':
        p = '/traits?name=startswith:CUSTOM_PV'
    elif kind == 'classes':
        p = '/resource_classes'
    else:
        p = '/usages?project_id=' + draw(st.sampled_from(PROJECTS))
    return R('GET', p, v, None, 'read', [kind])
