"""The service under test: the real placement WSGI pipeline, in-process.

One Service per process (oslo.db's transaction factory cannot be configured
twice).  State lives in a file SQLite database on tmpfs; snapshots are copies
of that file taken while no connection is open (NullPool => none is cached).
"""
import atexit
import io
import json
import logging
import os
import shutil
import sys
import tempfile
import threading

REPO = os.environ.get('PV_REPO', '/repo')
if REPO not in sys.path[:1]:
    sys.path.insert(0, REPO)

import webob  # noqa: E402
from oslo_config import cfg  # noqa: E402

LATEST = '1.39'
ALL_VERSIONS = ['1.%d' % i for i in range(40)]


class Resp(object):
    __slots__ = ('status', 'headers', 'body', 'json', 'escaped')

    def __init__(self, status, headers, body, escaped=None):
        self.status = status
        self.headers = headers
        self.body = body
        self.escaped = escaped
        self.json = None
        if body:
            try:
                self.json = json.loads(body.decode('utf-8'))
            except Exception:
                self.json = None

    @property
    def ok(self):
        return 200 <= self.status < 300

    def code(self):
        try:
            return self.json['errors'][0].get('code')
        except Exception:
            return None

    def detail(self):
        try:
            return self.json['errors'][0].get('detail')
        except Exception:
            return None

    def brief(self):
        d = {'status': self.status}
        c = self.code()
        if c:
            d['code'] = c
        if self.escaped:
            d['escaped'] = self.escaped
        return d


def _mk_conf(dbpath, auth='noauth2', policy_file=None, overrides=None):
    from placement import conf as pconf
    conf = cfg.ConfigOpts()
    pconf.register_opts(conf)
    # oslo.policy >= 5 dropped enforce_scope; deploy() still reads it.
    try:
        conf.register_opt(cfg.BoolOpt('enforce_scope', default=False),
                          group='oslo_policy')
    except cfg.DuplicateOptError:
        pass
    conf.set_default('connection', 'sqlite:///' + dbpath,
                     group='placement_database')
    conf([], project='placement', default_config_files=[],
         default_config_dirs=[])
    conf.set_override('auth_strategy', auth, group='api')
    if policy_file:
        conf.set_override('policy_file', policy_file, group='oslo_policy')
    for (group, name), value in (overrides or {}).items():
        conf.set_override(name, value, group=group)
    return conf


class Service(object):
    _instance = None

    def __init__(self, workdir=None, quiet=True):
        if Service._instance is not None:
            raise RuntimeError('one Service per process')
        Service._instance = self
        base = '/dev/shm' if os.path.isdir('/dev/shm') else None
        self.workdir = workdir or tempfile.mkdtemp(prefix='pv-%d-' % os.getpid(),
                                                   dir=base)
        self._own = workdir is None
        self._creator_pid = os.getpid()
        atexit.register(self.close)
        self.dbpath = os.path.join(self.workdir, 'p.db')
        if quiet:
            logging.disable(logging.CRITICAL)
        import warnings
        warnings.simplefilter('ignore')

        from placement import db_api
        from placement import deploy
        from placement.db.sqlalchemy import migration
        from placement import policy

        self.conf = _mk_conf(self.dbpath)
        db_api.configure(self.conf)
        self.engine = db_api.get_placement_engine()
        # empty snapshot: schema only, nothing synchronised
        migration.create_schema(self.engine)
        self.engine.dispose()
        self.empty = self.snapshot()
        policy.reset()
        self.app = deploy.loadapp(self.conf)
        self.engine.dispose()
        self.pristine = self.snapshot()
        self.escaped_count = 0

    # -- configuration variants -------------------------------------------
    def make_app(self, auth='noauth2', policy_file=None, overrides=None):
        """Another pipeline on the same engine with a different config."""
        from placement import deploy
        from placement import policy
        conf = _mk_conf(self.dbpath, auth=auth, policy_file=policy_file,
                        overrides=overrides)
        if auth == 'keystone':
            from keystonemiddleware import auth_token  # noqa
            from keystonemiddleware import opts as ks_opts
            for group, opts in ks_opts.list_auth_token_opts():
                try:
                    conf.register_opts(opts, group=group)
                except cfg.DuplicateOptError:
                    pass
            conf.set_override('www_authenticate_uri', 'http://127.0.0.1:1/',
                              group='keystone_authtoken')
        policy.reset()
        app = deploy.loadapp(conf)
        return app, conf

    def reset_policy(self):
        """Re-initialise the policy enforcer for the default app."""
        from placement import policy
        policy.reset()
        policy.init(self.conf)

    # -- snapshots -----------------------------------------------------------
    def snapshot(self):
        with open(self.dbpath, 'rb') as f:
            return f.read()

    def restore(self, snap):
        for suffix in ('-journal', '-wal', '-shm'):
            try:
                os.unlink(self.dbpath + suffix)
            except FileNotFoundError:
                pass
        with open(self.dbpath, 'wb') as f:
            f.write(snap)

    def reset(self):
        self.restore(self.pristine)

    @property
    def alembic(self):
        """Snapshot of a database whose schema was created by the alembic
        migrations (as `placement-manage db sync` or sync_on_startup do):
        at head, nothing synchronised yet."""
        if getattr(self, '_alembic', None) is None:
            from placement.db.sqlalchemy import migration
            keep = self.snapshot()
            self.restore(b'')
            migration.upgrade('head')
            self.engine.dispose()
            self._alembic = self.snapshot()
            self.restore(keep)
        return self._alembic

    # -- requests --------------------------------------------------------------
    def request(self, method, path, version=None, body=None, raw_body=None,
                headers=None, token='admin', roles=None, app=None,
                content_type='application/json', accept='application/json',
                environ=None):
        """Issue one request through the full pipeline.

        version: '1.N' / 'latest' / None (no header).  body: JSON-able object.
        raw_body: bytes sent verbatim.  token: X-Auth-Token ('user:project')
        or None for no credentials.  roles: list for X-Roles.
        """
        app = app or self.app
        hdrs = {}
        if version is not None:
            hdrs['OpenStack-API-Version'] = 'placement %s' % version
        if token is not None:
            hdrs['X-Auth-Token'] = token
        if roles is not None:
            hdrs['X-Roles'] = ','.join(roles)
        if accept is not None:
            hdrs['Accept'] = accept
        data = None
        if raw_body is not None:
            data = raw_body
        elif body is not None:
            data = json.dumps(body).encode('utf-8')
        if data is not None and content_type is not None:
            hdrs['Content-Type'] = content_type
        if headers:
            for k, v in headers.items():
                if v is None:
                    hdrs.pop(k, None)
                else:
                    hdrs[k] = v
        try:
            req = webob.Request.blank(path, method=method, headers=hdrs)
        except Exception as e:  # harness-level: path not encodable
            raise
        if data is not None:
            req.body = data
        # a declared length larger than the bytes that follow is an
        # incomplete transmission (the server would wait for the rest), not
        # an input: clamp it to what is actually sent
        cl = (headers or {}).get('Content-Length')
        try:
            # what webob's int() makes of it (it also accepts e.g. full-width
            # digits, which a real HTTP server in front would refuse)
            declared = int(cl) if isinstance(cl, str) else None
        except ValueError:
            declared = None
        if declared is not None and declared >= 0:
            sent = len(data) if data is not None else 0
            if declared > sent:
                req.environ['CONTENT_LENGTH'] = str(sent)
            elif data is not None:
                req.environ['CONTENT_LENGTH'] = cl
        if environ:
            req.environ.update(environ)
        try:
            resp = req.get_response(app)
            return Resp(resp.status_int, dict(resp.headers), resp.body)
        except Exception as e:  # escaped the WSGI callable
            self.escaped_count += 1
            return Resp(599, {}, b'', escaped='%s: %s' % (type(e).__name__, e))

    # -- pseudo requests (C19) -------------------------------------------------
    def restart(self):
        """What a process start does to the database: forget that this
        process has synchronised and run deploy.update_database() again."""
        from placement import deploy
        from placement.objects import resource_class
        from placement.objects import trait
        trait._TRAITS_SYNCED = False
        resource_class._RESOURCE_CLASSES_SYNCED = False
        try:
            deploy.update_database(self.conf)
            return Resp(200, {}, b'')
        except Exception as e:
            self.escaped_count += 1
            return Resp(599, {}, b'', escaped='%s: %s' % (type(e).__name__, e))
        finally:
            trait._TRAITS_SYNCED = True
            resource_class._RESOURCE_CLASSES_SYNCED = True
            self.engine.dispose()

    def raw_sql(self, statements):
        """Harness-side state preparation with the stdlib sqlite3 module."""
        import sqlite3
        con = sqlite3.connect(self.dbpath)
        try:
            for stmt in statements:
                if isinstance(stmt, (list, tuple)):
                    con.execute(stmt[0], stmt[1])
                else:
                    con.execute(stmt)
            con.commit()
        finally:
            con.close()
        return Resp(200, {}, b'')

    def close(self):
        if os.getpid() != self._creator_pid:
            return
        try:
            self.engine.dispose()
        except Exception:
            pass
        if self._own:
            shutil.rmtree(self.workdir, ignore_errors=True)
