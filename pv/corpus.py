"""Write-corpus builders shared by the fault (C17) and crash (C18) checks:
the multi-row write units the properties name explicitly."""
from hypothesis import strategies as st

from pv import gen, machine


def move_subtree(draw, d, PROFILE):
    """PUT provider that gives a provider WITH descendants another parent
    (or none): the re-parent write unit of the property."""
    inner = sorted(u for u in d.providers if d.children(u))
    if not inner:
        return machine.build(draw, d, PROFILE, 'update_rp')
    u = draw(st.sampled_from(inner))
    p = d.providers[u]
    desc = gen.descendants(d, u) | {u}
    targets = [x for x in sorted(d.providers)
               if x not in desc and x != p['parent']]
    if p['parent'] is not None:
        targets.append(None)
    if not targets:
        return machine.build(draw, d, PROFILE, 'update_rp')
    new = draw(st.sampled_from(targets))
    v = (1, 39) if p['parent'] is not None else draw(
        st.sampled_from([(1, 14), (1, 36), (1, 39)]))
    return gen.R('PUT', '/resource_providers/' + u, v,
                 {'name': p['name'], 'parent_provider_uuid': new},
                 'update_rp', ['move-subtree-%d' % min(len(desc), 3)],
                 target=u)


def post_allocations_existing(draw, d, PROFILE):
    """POST /allocations rewriting >= 2 existing consumers with changed
    project / user / type (a multi-consumer write unit touching consumer
    attributes as well as allocations)."""
    held = sorted(d.consumers)
    if len(held) < 2:
        return machine.build(draw, d, PROFILE, 'post_allocations')
    cs = draw(st.lists(st.sampled_from(held), min_size=2, max_size=3,
                       unique=True))
    req = gen.post_allocations(draw, d, (1, draw(st.sampled_from(
        [38, 39, 28, 13]))), consumers=cs)
    for c, e in req['b'].items():
        cur = d.consumers[c]
        e['project_id'] = [x for x in gen.PROJECTS + ['proj-c']
                           if x != cur['project']][0]
        e['user_id'] = [x for x in gen.USERS + ['user-c']
                        if x != cur['user']][0]
        if 'consumer_type' in e:
            e['consumer_type'] = 'MIGRATION' \
                if cur['type'] != 'MIGRATION' else 'INSTANCE'
    req['labels'].append('changes-consumer-attributes')
    return req


def delete_allocations_held(draw, d, PROFILE):
    """DELETE /allocations/{c} for a consumer that holds allocations,
    preferably on several providers (one write unit: all rows + the consumer
    record)."""
    spread = {}
    for (c, rp, _rc) in d.allocations:
        spread.setdefault(c, set()).add(rp)
    if not spread:
        return machine.build(draw, d, PROFILE, 'delete_allocations')
    wide = sorted(c for c, s_ in spread.items() if len(s_) >= 2)
    c = draw(st.sampled_from(wide or sorted(spread)))
    return gen.R('DELETE', '/allocations/' + c, (1, draw(st.sampled_from(
        [39, 28, 12, 0]))), None, 'delete_allocations',
        ['held-on-%d-providers' % min(len(spread[c]), 3)], consumers=[c])


def put_rp_aggregates_swap(draw, d, PROFILE):
    """PUT aggregates that removes one association and adds another in one
    request (one write unit: the whole replacement)."""
    have = {}
    for (p, a) in d.rp_aggs:
        have.setdefault(p, set()).add(a)
    if not have:
        return machine.build(draw, d, PROFILE, 'put_rp_aggregates')
    u = draw(st.sampled_from(sorted(have)))
    cur = sorted(have[u])
    drop = draw(st.sampled_from(cur))
    pool = [a for a in gen.AGGS + [gen.GHOST_AGG] if a not in cur]
    new = [a for a in cur if a != drop] + [draw(st.sampled_from(pool))]
    v = (1, draw(st.sampled_from([39, 19, 18, 1])))
    body = {'aggregates': new, 'resource_provider_generation':
            d.providers[u]['generation']} if v >= (1, 19) else new
    return gen.R('PUT', '/resource_providers/%s/aggregates' % u, v, body,
                 'put_rp_aggregates', ['adds-and-removes'], target=u)


EXTRA = {'put_rp_aggregates_swap': put_rp_aggregates_swap,
         'move_subtree': move_subtree,
         'post_allocations_existing': post_allocations_existing,
         'delete_allocations_held': delete_allocations_held}
