"""Write-corpus builders shared by the fault (C17) and crash (C18) checks:
the multi-row write units the properties name explicitly."""
from hypothesis import strategies as st

from pv import gen, machine


def move_subtree(draw, d, PROFILE):
    """PUT provider that gives a provider WITH descendants another parent
    (or none): the re-parent write unit of the property."""
    inner = sorted(u for u in d.providers if d.children(u))
    if not inner:
        return machine.build(draw, d, PROFILE, 'update_rp')
    u = draw(st.sampled_from(inner))
    p = d.providers[u]
    desc = gen.descendants(d, u) | {u}
    targets = [x for x in sorted(d.providers)
               if x not in desc and x != p['parent']]
    if p['parent'] is not None:
        targets.append(None)
    if not targets:
        return machine.build(draw, d, PROFILE, 'update_rp')
    new = draw(st.sampled_from(targets))
    v = (1, 39) if p['parent'] is not None else draw(
        st.sampled_from([(1, 14), (1, 36), (1, 39)]))
    return gen.R('PUT', '/resource_providers/' + u, v,
                 {'name': p['name'], 'parent_provider_uuid': new},
                 'update_rp', ['move-subtree-%d' % min(len(desc), 3)],
                 target=u)


def post_allocations_existing(draw, d, PROFILE):
    """POST /allocations rewriting >= 2 existing consumers with changed
    project / user / type (a multi-consumer write unit touching consumer
    attributes as well as allocations)."""
    held = sorted(d.consumers)
    if len(held) < 2:
        return machine.build(draw, d, PROFILE, 'post_allocations')
    cs = draw(st.lists(st.sampled_from(held), min_size=2, max_size=3,
                       unique=True))
    req = gen.post_allocations(draw, d, (1, draw(st.sampled_from(
        [38, 39, 28, 13]))), consumers=cs)
    for c, e in req['b'].items():
        cur = d.consumers[c]
        e['project_id'] = [x for x in gen.PROJECTS + ['proj-c']
                           if x != cur['project']][0]
        e['user_id'] = [x for x in gen.USERS + ['user-c']
                        if x != cur['user']][0]
        if 'consumer_type' in e:
            e['consumer_type'] = 'MIGRATION' \
                if cur['type'] != 'MIGRATION' else 'INSTANCE'
    req['labels'].append('changes-consumer-attributes')
    return req


def delete_allocations_held(draw, d, PROFILE):
    """DELETE /allocations/{c} for a consumer that holds allocations,
    preferably on several providers (one write unit: all rows + the consumer
    record)."""
    spread = {}
    for (c, rp, _rc) in d.allocations:
        spread.setdefault(c, set()).add(rp)
    if not spread:
        return machine.build(draw, d, PROFILE, 'delete_allocations')
    wide = sorted(c for c, s_ in spread.items() if len(s_) >= 2)
    c = draw(st.sampled_from(wide or sorted(spread)))
    return gen.R('DELETE', '/allocations/' + c, (1, draw(st.sampled_from(
        [39, 28, 12, 0]))), None, 'delete_allocations',
        ['held-on-%d-providers' % min(len(spread[c]), 3)], consumers=[c])


def put_rp_aggregates_swap(draw, d, PROFILE):
    """PUT aggregates that removes one association and adds another in one
    request (one write unit: the whole replacement)."""
    have = {}
    for (p, a) in d.rp_aggs:
        have.setdefault(p, set()).add(a)
    if not have:
        return machine.build(draw, d, PROFILE, 'put_rp_aggregates')
    u = draw(st.sampled_from(sorted(have)))
    cur = sorted(have[u])
    drop = draw(st.sampled_from(cur))
    pool = [a for a in gen.AGGS + [gen.GHOST_AGG] if a not in cur]
    new = [a for a in cur if a != drop] + [draw(st.sampled_from(pool))]
    v = (1, draw(st.sampled_from([39, 19, 18, 1])))
    body = {'aggregates': new, 'resource_provider_generation':
            d.providers[u]['generation']} if v >= (1, 19) else new
    return gen.R('PUT', '/resource_providers/%s/aggregates' % u, v, body,
                 'put_rp_aggregates', ['adds-and-removes'], target=u)


def put_rp_traits_swap(draw, d, PROFILE):
    """PUT traits that removes at least one association and adds at least
    one in one request."""
    have = {}
    for (p, t) in d.rp_traits:
        have.setdefault(p, set()).add(t)
    known = [t for t in gen.TRAITS if t in d.traits]
    if not have or not known:
        return machine.build(draw, d, PROFILE, 'put_rp_traits')
    u = draw(st.sampled_from(sorted(have)))
    cur = sorted(have[u])
    pool = [t for t in known if t not in cur]
    if not pool:
        return machine.build(draw, d, PROFILE, 'put_rp_traits')
    drop = draw(st.sampled_from(cur))
    new = [t for t in cur if t != drop] + [draw(st.sampled_from(pool))]
    v = (1, draw(st.sampled_from([39, 20, 6])))
    return gen.R('PUT', '/resource_providers/%s/traits' % u, v,
                 {'resource_provider_generation':
                  d.providers[u]['generation'], 'traits': new},
                 'put_rp_traits', ['adds-and-removes'], target=u)


def put_allocations_existing_old(draw, d, PROFILE):
    """PUT /allocations/{c} in the old microversion windows (1.0-1.7 without
    project/user, 1.8-1.11 list form, 1.12-1.27 dict form without consumer
    generation) for a consumer that already holds allocations: the write unit
    is "old allocations out, new ones in"."""
    from pv import cgen
    held = sorted({c for (c, _p, _k) in d.allocations})
    pairs = sorted(k for k in d.inventories if cgen.legal_amounts(d, *k))
    if not held or not pairs:
        return machine.build(draw, d, PROFILE, 'put_allocations')
    c = draw(st.sampled_from(held))
    rp, rc = draw(st.sampled_from(pairs))
    a = draw(st.sampled_from(
        cgen.legal_amounts(d, rp, rc, excluding=(c,)) or [1]))
    n = draw(st.sampled_from([0, 4, 7, 8, 11, 12, 27]))
    if n >= 12:
        body = {'allocations': {rp: {'resources': {rc: a}}}}
    else:
        body = {'allocations': [{'resource_provider': {'uuid': rp},
                                 'resources': {rc: a}}]}
    if n >= 8:
        body['project_id'] = draw(st.sampled_from(gen.PROJECTS))
        body['user_id'] = draw(st.sampled_from(gen.USERS))
    return gen.R('PUT', '/allocations/' + c, (1, n), body, 'put_allocations',
                 ['existing-consumer-old-window'], consumers=[c])


EXTRA = {'put_rp_aggregates_swap': put_rp_aggregates_swap,
         'put_rp_traits_swap': put_rp_traits_swap,
         'put_allocations_existing_old': put_allocations_existing_old,
         'move_subtree': move_subtree,
         'post_allocations_existing': post_allocations_existing,
         'delete_allocations_held': delete_allocations_held}
