"""Engine B generators: database states in the C03 scope (built through the
API) and structured allocation-candidate / provider-listing queries."""
from hypothesis import strategies as st

from pv import gen
from pv.acref import Group, Query, RPFilter, SHARING, World

PROV = gen.PROV[:7]
CLASSES = gen.CLASSES
TRAITS = gen.TRAITS
AGGS = gen.AGGS
NON_SHARING_TRAITS = [t for t in TRAITS if t != SHARING]


@st.composite
def states(draw, max_providers=7):
    """A state description: providers with parent index, inventories, traits,
    aggregates; consumers with allocations.  <= 7 providers, <= 3 trees,
    depth <= 3."""
    n = draw(st.sampled_from([4, 3, 5, 2, 6, 7, 1][:max_providers]))
    n = min(n, max_providers)
    provs = []
    depth = []
    nroots = 0
    for i in range(n):
        cands = [j for j in range(i) if depth[j] < 3]
        want_root = (not cands) or (nroots < 3 and draw(st.integers(0, 9)) < 4)
        if want_root and nroots >= 3 and cands:
            want_root = False
        if want_root:
            parent = None
            depth.append(1)
            nroots += 1
        else:
            parent = draw(st.sampled_from(cands))
            depth.append(depth[parent] + 1)
        ninv = draw(st.sampled_from([2, 1, 3, 1, 2, 0, 4]))
        rcs = draw(st.lists(st.sampled_from(CLASSES), min_size=min(ninv, 4),
                            max_size=min(ninv, 4), unique=True))
        invs = {}
        for rc in rcs:
            invs[rc] = _inventory(draw)
        traits = set(draw(st.lists(st.sampled_from(NON_SHARING_TRAITS),
                                   max_size=3, unique=True))) \
            if draw(st.integers(0, 9)) < 6 else set()
        aggs = set(draw(st.lists(st.sampled_from(AGGS), max_size=2,
                                 unique=True)))
        if draw(st.integers(0, 9)) == 9:
            aggs.add(draw(st.sampled_from(gen.ODD_AGGS)))
        sharing = bool(invs) and draw(st.integers(0, 9)) < 3
        if sharing:
            traits.add(SHARING)
            if draw(st.integers(0, 9)) < 8:
                aggs.add(draw(st.sampled_from(AGGS)))
            # (else: a provider may carry the trait and be in no aggregate)
        provs.append({'uuid': PROV[i], 'parent': parent, 'invs': invs,
                      'traits': sorted(traits), 'aggs': sorted(aggs)})
    # make sharing useful: give some other provider a common aggregate
    for p in provs:
        if SHARING in p['traits'] and p['aggs'] and n > 1 and \
                draw(st.integers(0, 9)) < 8:
            other = draw(st.sampled_from([q for q in provs if q is not p]))
            other['aggs'] = sorted(set(other['aggs']) | {p['aggs'][0]})
    return {'providers': provs, 'consumers': _usage(draw, provs)}


def _usage(draw, provs):
    ncons = draw(st.sampled_from([1, 2, 0, 3]))
    used = {}
    consumers = []
    pairs = [(i, rc) for i, p in enumerate(provs) for rc in sorted(p['invs'])]
    for c in range(ncons):
        if not pairs:
            break
        mine = draw(st.lists(st.sampled_from(pairs), min_size=1, max_size=3,
                             unique=True))
        alloc = {}
        for (i, rc) in mine:
            inv = provs[i]['invs'][rc]
            cap = (inv['total'] - inv['reserved']) * inv['allocation_ratio']
            free = cap - used.get((i, rc), 0)
            good = [a for a in range(1, 30) if a % inv['step_size'] == 0 and
                    inv['min_unit'] <= a <= inv['max_unit'] and a <= free]
            if not good:
                continue
            if draw(st.integers(0, 9)) < 8:
                good = good[:max(1, len(good) // 2)]
            a = draw(st.sampled_from(good))
            alloc[(i, rc)] = a
            used[(i, rc)] = used.get((i, rc), 0) + a
        if alloc:
            consumers.append({'uuid': gen.CONS[c], 'alloc': [
                [i, rc, a] for (i, rc), a in sorted(alloc.items())],
                # written at an old microversion => no consumer type
                'ver': draw(st.sampled_from([39, 39, 37, 12])),
                'project': draw(st.sampled_from(gen.PROJECTS)),
                'user': draw(st.sampled_from(gen.USERS))})
    return consumers


# ---------------------------------------------------------------- catalogue
def _inv(total, **kw):
    inv = {'total': total, 'reserved': 0, 'min_unit': 1, 'max_unit': total,
           'step_size': 1, 'allocation_ratio': 1.0}
    inv.update(kw)
    return inv


def _p(i, parent, invs=None, traits=(), aggs=()):
    return {'uuid': PROV[i], 'parent': parent, 'invs': invs or {},
            'traits': sorted(traits), 'aggs': sorted(aggs)}


A1, A2, A3 = AGGS
AVX, SSD, CT = 'HW_CPU_X86_AVX2', 'STORAGE_DISK_SSD', 'CUSTOM_PV_T'
# Hand-written topologies: the examples of doc/source/user/provider-tree.rst
# and the shapes the version history singles out (sharing at root and nested
# positions, aggregate on a child only, sharing-only, twins, resource-less
# roots, both a local and a shared offer of one class ...).
CATALOGUE = [
    # 0: two compute nodes sharing one storage pool
    [_p(0, None, {'VCPU': _inv(8), 'MEMORY_MB': _inv(12)}, aggs=[A1]),
     _p(1, None, {'VCPU': _inv(4), 'MEMORY_MB': _inv(6)}, [AVX], [A1]),
     _p(2, None, {'DISK_GB': _inv(12)}, [SHARING, SSD], [A1])],
    # 1: NUMA-like tree, resource-less root with a trait
    [_p(0, None, {}, [CT]),
     _p(1, 0, {'VCPU': _inv(4), 'MEMORY_MB': _inv(8)}, [AVX]),
     _p(2, 0, {'VCPU': _inv(4), 'MEMORY_MB': _inv(8)}),
     _p(3, 1, {'CUSTOM_PV_A': _inv(2)}, [SSD]),
     _p(4, 2, {'CUSTOM_PV_A': _inv(2)})],
    # 2: nested sharing provider (child of a foreign root) serving another
    [_p(0, None, {'VCPU': _inv(8)}, aggs=[A1]),
     _p(1, None, {'MEMORY_MB': _inv(8)}),
     _p(2, 1, {'DISK_GB': _inv(10)}, [SHARING], [A1])],
    # 3: sharing providers only
    [_p(0, None, {'VCPU': _inv(6)}, [SHARING], [A1]),
     _p(1, None, {'DISK_GB': _inv(6)}, [SHARING], [A1]),
     _p(2, None, {}, aggs=[A1])],
    # 4: the aggregate sits on a child only (does not span the tree)
    [_p(0, None, {'VCPU': _inv(8)}),
     _p(1, 0, {'MEMORY_MB': _inv(8)}, aggs=[A2]),
     _p(2, None, {'DISK_GB': _inv(8)}, [SHARING], [A2])],
    # 5: one class offered locally and by a sharing provider
    [_p(0, None, {'VCPU': _inv(8), 'DISK_GB': _inv(4)}, aggs=[A1]),
     _p(1, None, {'DISK_GB': _inv(12)}, [SHARING, SSD], [A1])],
    # 6: a sharing provider bridging two trees through two aggregates
    [_p(0, None, {'VCPU': _inv(4)}, aggs=[A1]),
     _p(1, None, {'VCPU': _inv(4)}, [AVX], [A2]),
     _p(2, None, {'DISK_GB': _inv(9)}, [SHARING], [A1, A2]),
     _p(3, 1, {'MEMORY_MB': _inv(6)})],
    # 7: depth 3 with the same class at every level
    [_p(0, None, {'VCPU': _inv(2)}),
     _p(1, 0, {'VCPU': _inv(4)}, [AVX]),
     _p(2, 1, {'VCPU': _inv(6)}, [AVX, SSD]),
     _p(3, 2, {'VCPU': _inv(8), 'DISK_GB': _inv(3)})],
    # 8: identical twins under one root
    [_p(0, None, {'MEMORY_MB': _inv(8)}),
     _p(1, 0, {'CUSTOM_PV_A': _inv(4), 'VCPU': _inv(4)}, [CT]),
     _p(2, 0, {'CUSTOM_PV_A': _inv(4), 'VCPU': _inv(4)}, [CT])],
    # 9: unit constraints and fractional ratios everywhere
    [_p(0, None, {'VCPU': _inv(5, reserved=1, step_size=2, min_unit=2,
                               max_unit=4, allocation_ratio=1.5),
                  'DISK_GB': _inv(10, reserved=4, allocation_ratio=0.5)},
        aggs=[A3]),
     _p(1, 0, {'VCPU': _inv(3, max_unit=2, allocation_ratio=2.0)}),
     _p(2, None, {'DISK_GB': _inv(7, step_size=3, max_unit=6,
                                  allocation_ratio=1.1)}, [SHARING], [A3])],
    # 10: two sharing providers of different classes in one aggregate, two
    # trees using them
    [_p(0, None, {'VCPU': _inv(4)}, aggs=[A1]),
     _p(1, None, {'VCPU': _inv(2)}, aggs=[A1]),
     _p(2, None, {'DISK_GB': _inv(8)}, [SHARING], [A1]),
     _p(3, None, {'MEMORY_MB': _inv(8)}, [SHARING, CT], [A1])],
    # 11: sharing root that also has children with inventory
    [_p(0, None, {'DISK_GB': _inv(8)}, [SHARING], [A1]),
     _p(1, 0, {'CUSTOM_PV_A': _inv(3)}),
     _p(2, None, {'VCPU': _inv(4)}, aggs=[A1]),
     _p(3, 2, {'MEMORY_MB': _inv(4)}, [AVX])],
]


@st.composite
def catalogue_states(draw, max_providers=7):
    import copy
    provs = copy.deepcopy(draw(st.sampled_from(
        [c for c in CATALOGUE if len(c) <= max_providers])))
    return {'providers': provs, 'consumers': _usage(draw, provs),
            'catalogue': True}


def states_mixed(max_providers=7, catalogue_share=3):
    """Generated states, with catalogue_share in 10 taken from CATALOGUE."""
    return st.integers(0, 9).flatmap(
        lambda c: catalogue_states(max_providers) if c < catalogue_share
        else states(max_providers))


def _inventory(draw):
    total = draw(st.integers(1, 12))
    c = draw(st.integers(0, 9))
    inv = {'total': total, 'reserved': 0, 'min_unit': 1, 'max_unit': total,
           'step_size': 1, 'allocation_ratio': 1.0}
    if c < 5:
        return inv
    inv['reserved'] = draw(st.integers(0, total // 2))
    inv['min_unit'] = draw(st.integers(1, 2))
    inv['max_unit'] = draw(st.sampled_from([2, 3, 4, 6, 12, gen.MAX_INT]))
    inv['step_size'] = draw(st.integers(1, 3))
    inv['allocation_ratio'] = draw(st.sampled_from(gen.RATIOS))
    return inv


def build_state(svc, desc, base):
    """Create the described state through the API (microversion 1.39).
    Returns the number of requests that were refused (allocations that no
    longer fit are skipped, never an error)."""
    svc.restore(base)
    refused = 0
    for p in desc['providers']:
        body = {'name': 'p-' + p['uuid'][:8], 'uuid': p['uuid']}
        if p['parent'] is not None:
            body['parent_provider_uuid'] = desc['providers'][p['parent']]['uuid']
        r = svc.request('POST', '/resource_providers', version='1.39',
                        body=body)
        assert r.status == 200, (r.status, r.body)
        g = 0
        if p['invs']:
            r = svc.request('PUT', '/resource_providers/%s/inventories'
                            % p['uuid'], version='1.39',
                            body={'resource_provider_generation': g,
                                  'inventories': p['invs']})
            assert r.status == 200, (r.status, r.body)
            g = r.json['resource_provider_generation']
        if p['traits']:
            r = svc.request('PUT', '/resource_providers/%s/traits' % p['uuid'],
                            version='1.39',
                            body={'resource_provider_generation': g,
                                  'traits': p['traits']})
            assert r.status == 200, (r.status, r.body)
            g = r.json['resource_provider_generation']
        if p['aggs']:
            r = svc.request('PUT', '/resource_providers/%s/aggregates'
                            % p['uuid'], version='1.39',
                            body={'resource_provider_generation': g,
                                  'aggregates': p['aggs']})
            assert r.status == 200, (r.status, r.body)
    for c in desc['consumers']:
        allocs = {}
        for (i, rc, a) in c['alloc']:
            u = desc['providers'][i]['uuid']
            allocs.setdefault(u, {'resources': {}})['resources'][rc] = a
        ver = c.get('ver', 39)
        body = {'allocations': allocs,
                'project_id': c.get('project', 'proj-a'),
                'user_id': c.get('user', 'user-a')}
        if ver >= 28:
            body['consumer_generation'] = None
        if ver >= 38:
            body['consumer_type'] = 'INSTANCE'
        r = svc.request('PUT', '/allocations/' + c['uuid'],
                        version='1.%d' % ver, body=body)
        if r.status != 204:
            refused += 1
    return refused


# ------------------------------------------------------------------ queries
def _amount_for(draw, w, rc, hit, provs=None):
    """An amount some provider can (hit) or nobody can (miss) supply."""
    good = set()
    for (p, k), inv in w.inv.items():
        if k != rc or (provs is not None and p not in provs):
            continue
        for a in range(1, 16):
            if w.has_room(p, rc, a):
                good.add(a)
    if hit and good:
        if getattr(w, 'rich', False):
            return min(good)
        return draw(st.sampled_from(sorted(good)))
    return draw(st.integers(1, 14))


def _group_filters(draw, w, g, version, hit, provider=None, collective=None,
                   anchor=None):
    """Add trait / aggregate / in_tree filters to group g.  provider: a
    provider the (suffixed) group is aimed at; collective: providers whose
    united traits an unsuffixed group may draw on."""
    if getattr(w, 'rich', False) and draw(st.integers(0, 9)) < 7:
        return
    pool_traits = set()
    pool_aggs = set()
    if provider is not None:
        pool_traits = set(w.traits[provider])
        pool_aggs = set(w.aggs[provider])
    elif collective:
        for p in collective:
            pool_traits |= w.traits[p]
        common = None
        for p in collective:
            mine = w.aggs[p] | (w.aggs[w.root[p]] if anchor is not None and
                                w.root[p] == anchor else set())
            common = mine if common is None else (common & mine)
        pool_aggs = common or set()
        bad_aggs = set()
        for p in collective:
            bad_aggs |= w.aggs[p] | w.aggs[w.root[p]]
        if anchor is not None:
            bad_aggs |= w.aggs[anchor]
    pool_traits.discard(SHARING) if draw(st.integers(0, 3)) else None
    if version >= 17 and draw(st.integers(0, 9)) < 4:
        src = sorted(pool_traits) if (hit and pool_traits) else gen.TRAITS
        k = draw(st.integers(1, 2))
        for _ in range(k):
            t = draw(st.sampled_from(src))
            if version >= 39 and draw(st.integers(0, 3)) == 0:
                other = draw(st.sampled_from(gen.TRAITS))
                g.required.append({t, other})
            else:
                g.required.append({t})
    if version >= 22 and draw(st.integers(0, 9)) < 3:
        cand = [t for t in gen.TRAITS if t not in pool_traits or not hit]
        cand = [t for t in cand if not any(t in a for a in g.required)]
        if cand:
            g.forbidden.add(draw(st.sampled_from(cand)))
    if version >= 21 and draw(st.integers(0, 9)) < 4:
        src = sorted(pool_aggs) if (hit and pool_aggs) else \
            gen.AGGS + gen.ODD_AGGS + [gen.GHOST_AGG]
        k = draw(st.integers(1, 2)) if version >= 24 else 1
        for _ in range(k):
            a = draw(st.sampled_from(src))
            if draw(st.integers(0, 2)) == 0:
                g.member_of.append({a, draw(st.sampled_from(
                    gen.AGGS + gen.ODD_AGGS + [gen.GHOST_AGG]))})
            else:
                g.member_of.append({a})
    if version >= 32 and draw(st.integers(0, 9)) < 2:
        avoid = pool_aggs if not collective else bad_aggs
        cand = [a for a in gen.AGGS + gen.ODD_AGGS + [gen.GHOST_AGG]
                if a not in avoid or not hit]
        if cand:
            g.forbidden_aggs |= set(draw(st.lists(
                st.sampled_from(cand), min_size=1, max_size=2, unique=True)))
    if version >= 31 and draw(st.integers(0, 9)) < 2:
        if hit and (provider or collective):
            base = provider or sorted(collective)[0]
            if provider is None and anchor is not None:
                base = anchor
            tree = [p for p in w.providers if w.root[p] == w.root[base]]
            g.in_tree = draw(st.sampled_from(tree))
        else:
            g.in_tree = draw(st.sampled_from(w.providers + [gen.GHOST_RP]))


def _subtree_family(draw, w):
    """Three suffixed groups aimed at providers of ONE tree, tied by one or
    two (usually overlapping) same_subtree constraints - the shape in which
    'each repeat of same_subtree is independent' matters."""
    by_root = {}
    for (p, rc) in sorted(w.inv):
        if any(w.has_room(p, rc, x) for x in range(1, 16)):
            by_root.setdefault(w.root[p], []).append((p, rc))
    trees = [r for r, prs in sorted(by_root.items())
             if len({p for p, _ in prs}) >= 2]
    if not trees:
        return None
    root = draw(st.sampled_from(trees))
    pairs = by_root[root]
    groups = []
    for s in ('_A', '_B', '_C'):
        p, rc = draw(st.sampled_from(pairs))
        good = [x for x in range(1, 16) if w.has_room(p, rc, x)]
        groups.append(Group(s, {rc: draw(st.sampled_from(good[:3]))}))
    q = Query(groups, group_policy=draw(st.sampled_from(['none', 'none',
                                                         'isolate'])))
    sets = draw(st.sampled_from([
        [{'_A', '_B'}, {'_B', '_C'}], [{'_A', '_B'}, {'_A', '_C'}],
        [{'_A', '_C'}, {'_B', '_C'}], [{'_A', '_B', '_C'}],
        [{'_A', '_B'}], [{'_A', '_B'}, {'_B', '_C'}, {'_A', '_C'}]]))
    q.same_subtree = [set(x) for x in sets]
    q.aimed = True
    return q


@st.composite
def queries(draw, d, version, rich=False):
    """A valid allocation-candidates query for microversion 1.<version> over
    the names of the scope, biased towards what the state can satisfy."""
    w = World(d)
    w.rich = rich
    if version >= 36 and not rich and draw(st.integers(0, 9)) < 2:
        q = _subtree_family(draw, w)
        if q is not None:
            return q
    hit = draw(st.integers(0, 9)) < 9 or rich
    inv_pairs = sorted(w.inv)
    groups = []
    have_unsuffixed = version < 25 or draw(st.integers(0, 9)) < 7
    nsuff = 0 if version < 25 else draw(st.sampled_from(
        [0, 0, 1, 1, 2, 2, 3] if version < 36 else [0, 1, 1, 2, 2, 3, 3]))
    if not have_unsuffixed and nsuff == 0:
        have_unsuffixed = True
    if hit:
        # aim only at (provider, class) pairs that still have room
        roomy = [(p, rc) for (p, rc) in inv_pairs
                 if any(w.has_room(p, rc, x) for x in range(1, 16))]
        inv_pairs = roomy or inv_pairs
    roots = w.roots
    if hit and inv_pairs:
        good_roots = [a for a in w.roots
                      if any(w.placeable(p, a) for p, _rc in inv_pairs)]
        roots = good_roots or roots
    anchor = draw(st.sampled_from(roots)) if (hit and roots) else None
    if anchor is not None:
        # aim every group at one anchor: its tree plus associated sharing
        reach_p = [p for p in w.providers if w.placeable(p, anchor)]
        if draw(st.integers(0, 9)) < 8:
            inv_pairs = [(p, rc) for (p, rc) in inv_pairs if p in reach_p] \
                or inv_pairs
    if have_unsuffixed:
        g = Group('')
        collective = None
        if hit and inv_pairs:
            # aim at one tree: classes offered by a tree (+ its sharing)
            a = anchor
            reach = [(p, rc) for (p, rc) in inv_pairs if w.placeable(p, a)]
            if reach:
                picks = draw(st.lists(st.sampled_from(reach), min_size=1,
                                      max_size=3, unique_by=lambda x: x[1]))
                for (p, rc) in picks:
                    g.resources[rc] = _amount_for(draw, w, rc, True, {p})
                collective = {p for p, _rc in picks}
        if hit and inv_pairs and draw(st.integers(0, 9)) == 0:
            # "split" request: every class fits on SOME provider, but the
            # providers are drawn from anywhere (often no single tree offers
            # them all): the correct answer is frequently empty, and a
            # candidate that places only part of the request is wrong
            every = sorted(w.inv)
            roomy_all = [(p, rc) for (p, rc) in every
                         if any(w.has_room(p, rc, x) for x in range(1, 16))]
            pool = roomy_all or every
            ncls = len({rc for _p, rc in pool})
            picks = draw(st.lists(st.sampled_from(pool),
                                  min_size=min(2, ncls), max_size=4,
                                  unique_by=lambda x: x[1]))
            g.resources = {}
            for (p, rc) in picks:
                g.resources[rc] = _amount_for(draw, w, rc, True, {p})
            collective = None
        if not g.resources:
            for rc in draw(st.lists(st.sampled_from(CLASSES), min_size=1,
                                    max_size=3, unique=True)):
                g.resources[rc] = _amount_for(draw, w, rc, hit)
        _group_filters(draw, w, g, version, hit, collective=collective,
                       anchor=anchor)
        groups.append(g)
    suffixes = []
    for i in range(nsuff):
        if version >= 33 and draw(st.booleans()):
            s = draw(st.sampled_from(['_A', 'b-c', 'X9', '_COMPUTE', '01']))
            while s in suffixes:
                s += 'z'
        else:
            s = str(i + 1) if draw(st.booleans()) else str(10 * (i + 1))
        suffixes.append(s)
        g = Group(s)
        provider = None
        resourceless = version >= 36 and draw(st.integers(0, 9)) < 2
        if hit and w.providers:
            if resourceless or not inv_pairs:
                provider = draw(st.sampled_from(
                    reach_p if anchor is not None else w.providers))
            else:
                provider = draw(st.sampled_from(inv_pairs))[0]
        if not resourceless:
            if provider is not None and any(p == provider for p, _ in inv_pairs):
                mine = [rc for (p, rc) in inv_pairs if p == provider]
                for rc in draw(st.lists(st.sampled_from(mine), min_size=1,
                                        max_size=2, unique=True)):
                    good = [x for x in range(1, 16)
                            if w.has_room(provider, rc, x)]
                    g.resources[rc] = draw(st.sampled_from(good)) if good \
                        else draw(st.integers(1, 14))
            else:
                for rc in draw(st.lists(st.sampled_from(CLASSES), min_size=1,
                                        max_size=2, unique=True)):
                    g.resources[rc] = _amount_for(draw, w, rc, hit)
        _group_filters(draw, w, g, version, hit, provider=provider,
                       anchor=anchor)
        if resourceless and not (g.required or g.forbidden or g.member_of or
                                 g.forbidden_aggs or g.in_tree):
            # a resourceless group exists in the query string only through
            # one of its filters
            if w.providers and version >= 31:
                g.in_tree = provider or draw(st.sampled_from(w.providers))
            else:
                g.resources['VCPU'] = 1
        groups.append(g)
    q = Query(groups)
    nsuffixed = sum(1 for g in groups if g.suffix)
    if version >= 25:
        if nsuffixed > 1:
            q.group_policy = draw(st.sampled_from(['none', 'isolate']))
        elif draw(st.integers(0, 9)) < 2:
            q.group_policy = draw(st.sampled_from(['none', 'isolate']))
    if version >= 35 and draw(st.integers(0, 9)) < 2:
        roots_traits = set()
        for r in ([anchor] if anchor is not None else w.roots):
            roots_traits |= w.traits[r]
        if draw(st.booleans()) and roots_traits and hit:
            q.root_required.add(draw(st.sampled_from(sorted(roots_traits))))
        else:
            cand = [t for t in gen.TRAITS
                    if anchor is None or t not in w.traits[anchor]]
            q.root_forbidden.add(draw(st.sampled_from(cand or gen.TRAITS)))
    if version >= 36:
        resourceless = [g.suffix for g in groups if g.suffix and
                        not g.resources]
        suff = [g.suffix for g in groups if g.suffix]
        if resourceless:
            members = set(resourceless) | set(draw(st.lists(
                st.sampled_from(suff), max_size=2, unique=True)))
            q.same_subtree.append(members)
        elif len(suff) >= 2 and draw(st.integers(0, 9)) < 6:
            q.same_subtree.append(set(draw(st.lists(
                st.sampled_from(suff), min_size=2, max_size=3, unique=True))))
            if len(suff) >= 3 and draw(st.booleans()):
                # a second, independent constraint (the parameter may be
                # repeated; each repeat is treated on its own), usually
                # overlapping the first one
                q.same_subtree.append(set(draw(st.lists(
                    st.sampled_from(suff), min_size=2, max_size=2,
                    unique=True))))
    # a resourceless-only query is not valid: ensure one group has resources
    if not any(g.resources for g in groups):
        groups[0].resources['VCPU'] = 1
    q.aimed = hit
    return q


@st.composite
def rp_filters(draw, d, version):
    w = World(d)
    f = RPFilter()
    hit = draw(st.integers(0, 9)) < 8
    target = draw(st.sampled_from(w.providers)) if (w.providers and hit) \
        else None
    k = draw(st.sampled_from([2, 3, 1, 4]))
    kinds = ['name', 'uuid']
    if version >= 3:
        kinds += ['member_of', 'member_of']
    if version >= 4:
        kinds += ['resources', 'resources']
    if version >= 14:
        kinds += ['in_tree']
    if version >= 18:
        kinds += ['required', 'required']
    if version >= 22:
        kinds += ['forbidden']
    if version >= 32:
        kinds += ['forbidden_aggs']
    chosen = set(draw(st.lists(st.sampled_from(kinds), min_size=k,
                               max_size=k)))
    for kind in sorted(chosen):
        if kind == 'name':
            f.name = d.providers[target]['name'] if target else 'nobody'
        elif kind == 'uuid':
            f.uuid = target or gen.GHOST_RP
        elif kind == 'in_tree':
            if target:
                tree = [p for p in w.providers if w.root[p] == w.root[target]]
                f.in_tree = draw(st.sampled_from(tree))
            else:
                f.in_tree = draw(st.sampled_from(w.providers + [gen.GHOST_RP]))
        elif kind == 'member_of':
            n = draw(st.integers(1, 2)) if version >= 24 else 1
            for _ in range(n):
                src = sorted(w.aggs[target]) if target and w.aggs[target] \
                    else gen.AGGS + gen.ODD_AGGS + [gen.GHOST_AGG]
                a = draw(st.sampled_from(src))
                if draw(st.integers(0, 2)) == 0:
                    f.member_of.append({a, draw(st.sampled_from(
                        gen.AGGS + gen.ODD_AGGS + [gen.GHOST_AGG]))})
                else:
                    f.member_of.append({a})
        elif kind == 'forbidden_aggs':
            cand = [a for a in gen.AGGS + gen.ODD_AGGS + [gen.GHOST_AGG]
                    if not target or a not in w.aggs[target]]
            if cand:
                f.forbidden_aggs |= set(draw(st.lists(
                    st.sampled_from(cand), min_size=1, max_size=2,
                    unique=True)))
        elif kind == 'required':
            n = draw(st.integers(1, 2))
            for _ in range(n):
                src = sorted(w.traits[target]) if target and w.traits[target] \
                    else gen.TRAITS
                t = draw(st.sampled_from(src))
                if version >= 39 and draw(st.integers(0, 2)) == 0:
                    f.required.append({t, draw(st.sampled_from(gen.TRAITS))})
                else:
                    f.required.append({t})
        elif kind == 'forbidden':
            cand = [t for t in gen.TRAITS
                    if (not target or t not in w.traits[target]) and
                    not any(t in a for a in f.required)]
            if cand:
                f.forbidden.add(draw(st.sampled_from(cand)))
        elif kind == 'resources':
            mine = [rc for (p, rc) in w.inv if p == target] if target else []
            rcs = draw(st.lists(st.sampled_from(mine or CLASSES), min_size=1,
                                max_size=2, unique=True))
            for rc in rcs:
                good = [x for x in range(1, 16)
                        if target and w.has_room(target, rc, x)]
                f.resources[rc] = draw(st.sampled_from(good)) if good \
                    else draw(st.integers(1, 14))
    positive = sorted({a for s_ in f.member_of for a in s_})
    if version >= 32 and positive and draw(st.integers(0, 3)) == 0:
        # an aggregate that a positive member_of of the same request asks
        # for is also forbidden (legal; both conditions must hold)
        f.forbidden_aggs.add(draw(st.sampled_from(positive)))
    return f
