"""Engine C case generators: sets of 2-3 contending requests for a state."""
from hypothesis import strategies as st

from pv import gen


def put_alloc(d, consumer, placed, v=(1, 38), gen_override='auto',
              project='proj-a', user='user-a', ctype='INSTANCE'):
    """PUT /allocations/{consumer} placing {(rp, rc): amount}."""
    amap = {}
    for (rp, rc), amt in placed.items():
        amap.setdefault(rp, {'resources': {}})['resources'][rc] = amt
    body = {'allocations': amap, 'project_id': project, 'user_id': user}
    labels = []
    if v >= (1, 28):
        cur = d.consumers.get(consumer)
        g = cur['generation'] if cur else None
        if gen_override != 'auto':
            g = gen_override
        body['consumer_generation'] = g
    if v >= (1, 38):
        body['consumer_type'] = ctype
    return gen.R('PUT', '/allocations/' + consumer, v, body, 'put_allocations',
                 labels, consumers=[consumer])


def post_alloc(d, entries, v=(1, 38), gens=None):
    """POST /allocations; entries {consumer: {(rp, rc): amount}}."""
    body = {}
    for c, placed in entries.items():
        amap = {}
        for (rp, rc), amt in placed.items():
            amap.setdefault(rp, {'resources': {}})['resources'][rc] = amt
        e = {'allocations': amap, 'project_id': 'proj-b', 'user_id': 'user-b'}
        if v >= (1, 28):
            cur = d.consumers.get(c)
            e['consumer_generation'] = cur['generation'] if cur else None
            if gens and c in gens:
                e['consumer_generation'] = gens[c]
        if v >= (1, 38):
            e['consumer_type'] = 'MIGRATION'
        body[c] = e
    return gen.R('POST', '/allocations', v, body, 'post_allocations', [],
                 consumers=sorted(entries))


def reshape_req(d, invs, entries, v=(1, 38), rp_gens=None, gens=None):
    """POST /reshaper; invs {rp: {rc: inv}}; entries as post_alloc."""
    ib = {}
    for rp, x in invs.items():
        g = d.providers[rp]['generation']
        if rp_gens and rp in rp_gens:
            g = rp_gens[rp]
        ib[rp] = {'resource_provider_generation': g, 'inventories': x}
    ab = post_alloc(d, entries, v, gens)['b']
    for e in ab.values():
        e['project_id'], e['user_id'] = 'proj-a', 'user-b'
    return gen.R('POST', '/reshaper', v, {'inventories': ib,
                                          'allocations': ab}, 'reshaper', [],
                 consumers=sorted(entries), roles=['service'], tok='svc')


def legal_amounts(d, rp, rc, excluding=()):
    inv = d.inventories[(rp, rc)]
    free = gen.free_for(d, rp, rc, excluding=excluding)
    return [a for a in range(1, 40) if a % inv['step_size'] == 0 and
            inv['min_unit'] <= a <= inv['max_unit'] and a <= free]


def current_inv_body(d, rp):
    return {rc: dict(inv) for (p, rc), inv in d.inventories.items()
            if p == rp}


def versions_cg(draw):
    return (1, draw(st.sampled_from([38, 39, 34, 28, 30, 36])))


def contention_case(draw, d):
    """C07: 2-3 requests racing for one inventory / provider / consumer, all
    carrying correct generations."""
    pairs = sorted(d.inventories)
    if not pairs:
        return None
    roomy = [k for k in pairs if legal_amounts(d, *k)]
    if not roomy:
        return None
    rp, rc = draw(st.sampled_from(roomy))
    kind = draw(st.sampled_from(['last-units', 'last-units', 'vs-inventory',
                                 'move-vs-put', 'traitagg-vs-alloc',
                                 'reshape-vs-alloc', 'same-consumer',
                                 'vs-delete', 'vs-delete', 'double-submit',
                                 'tree-race', 'class-race']))
    v = versions_cg(draw)
    free_cons = [c for c in gen.CONS if c not in d.consumers]
    held = sorted(d.consumers)
    amts = legal_amounts(d, rp, rc)
    free = int(gen.free_for(d, rp, rc))
    big = [a for a in amts if 2 * a > free] or amts
    reqs = {}

    def new_or_held(i):
        if held and draw(st.integers(0, 2)) == 0:
            return draw(st.sampled_from(held))
        return free_cons[i % len(free_cons)] if free_cons else held[0]

    def amount_for(c):
        ok = legal_amounts(d, rp, rc, excluding=(c,))
        b = [a for a in ok if 2 * a > int(gen.free_for(d, rp, rc, (c,)))]
        return draw(st.sampled_from(b or ok or [1]))

    if kind == 'class-race':
        # an inventory of a custom class is written while the class (or the
        # trait of a trait update) is being deleted
        g = d.providers[rp]['generation']
        if draw(st.booleans()):
            unused = [c for c in sorted(d.classes) if c.startswith('CUSTOM_')
                      and not any(k == c for (_p, k) in d.inventories)]
            if not unused:
                return None
            rcx = draw(st.sampled_from(unused))
            invs = current_inv_body(d, rp)
            invs[rcx] = {'total': draw(st.integers(1, 8))}
            reqs['A'] = gen.R(
                'PUT', '/resource_providers/%s/inventories' % rp, v,
                {'resource_provider_generation': g, 'inventories': invs},
                'put_inventories', [], target=rp)
            if draw(st.booleans()):
                reqs['A'] = gen.R(
                    'POST', '/resource_providers/%s/inventories' % rp, v,
                    {'resource_class': rcx, 'total': 4}, 'post_inventory', [],
                    target=rp)
            reqs['B'] = gen.R('DELETE', '/resource_classes/' + rcx, v, None,
                              'delete_class', [])
        else:
            unused = [t for t in sorted(d.traits) if t.startswith('CUSTOM_')
                      and not any(x == t for (_p, x) in d.rp_traits)]
            if not unused:
                return None
            tx = draw(st.sampled_from(unused))
            cur = sorted({t for (p, t) in d.rp_traits if p == rp} | {tx})
            reqs['A'] = gen.R('PUT', '/resource_providers/%s/traits' % rp, v,
                              {'resource_provider_generation': g,
                               'traits': cur}, 'put_rp_traits', [], target=rp)
            reqs['B'] = gen.R('DELETE', '/traits/' + tx, v, None,
                              'delete_trait', [])
        return reqs
    if kind == 'tree-race':
        # structural requests around one provider P: delete it, give it a
        # child, move another (sub)tree under it, move P itself
        free = gen.free_uuids(d)
        leaves = sorted(u for u in d.providers if not d.children(u) and
                        not any(p == u for (_c, p, _k) in d.allocations))
        P = draw(st.sampled_from(leaves or sorted(d.providers)))
        vv = (1, draw(st.sampled_from([39, 37, 36, 14])))
        opts = ['delete', 'child', 'adopt', 'move']
        picks = draw(st.lists(st.sampled_from(opts), min_size=2, max_size=3,
                              unique=True))
        for name, what in zip('ABC', picks):
            if what == 'delete':
                reqs[name] = gen.R('DELETE', '/resource_providers/' + P, vv,
                                   None, 'delete_rp', [], target=P)
            elif what == 'child' and free:
                u = free.pop(0)
                reqs[name] = gen.R('POST', '/resource_providers', vv,
                                   {'name': 'race-' + u[:8], 'uuid': u,
                                    'parent_provider_uuid': P},
                                   'create_rp', [])
            elif what == 'adopt':
                others = [x for x in sorted(d.providers) if x != P and
                          P not in gen.descendants(d, x) and
                          d.providers[x]['parent'] != P and
                          (vv >= (1, 37) or d.providers[x]['parent'] is None)]
                if not others:
                    continue
                x = draw(st.sampled_from(others))
                reqs[name] = gen.R('PUT', '/resource_providers/' + x, vv,
                                   {'name': d.providers[x]['name'],
                                    'parent_provider_uuid': P},
                                   'update_rp', [], target=x)
            elif what == 'move':
                others = [x for x in sorted(d.providers) if x != P and
                          x not in gen.descendants(d, P) and
                          d.providers[P]['parent'] != x]
                if not others or (vv < (1, 37) and
                                  d.providers[P]['parent'] is not None):
                    continue
                x = draw(st.sampled_from(others))
                reqs[name] = gen.R('PUT', '/resource_providers/' + P, vv,
                                   {'name': d.providers[P]['name'],
                                    'parent_provider_uuid': x},
                                   'update_rp', [], target=P)
        if len(reqs) < 2:
            return None
        return {n: r for n, r in zip('ABC', [reqs[k] for k in sorted(reqs)])}
    if kind == 'double-submit':
        # one generation-guarded provider update submitted twice (and
        # sometimes an allocation write on the same provider)
        import copy
        g = d.providers[rp]['generation']
        reqs['A'] = provider_write(draw, d, rp, v, g)
        reqs['B'] = copy.deepcopy(reqs['A'])
        if draw(st.integers(0, 2)) == 0:
            c = new_or_held(0)
            reqs['C'] = put_alloc(d, c, {(rp, rc): amount_for(c)}, v)
        return reqs
    if kind == 'last-units':
        n = draw(st.sampled_from([2, 2, 3]))
        used = set()
        for i, name in enumerate('ABC'[:n]):
            c = new_or_held(i)
            if c in used:
                c = free_cons[(i + 1) % len(free_cons)] if free_cons else c
            used.add(c)
            if draw(st.booleans()):
                reqs[name] = put_alloc(d, c, {(rp, rc): amount_for(c)}, v)
            else:
                reqs[name] = post_alloc(d, {c: {(rp, rc): amount_for(c)}}, v)
    elif kind == 'same-consumer':
        # 2-3 writers of one consumer, all carrying its correct generation
        c = new_or_held(0)
        n = draw(st.sampled_from([2, 2, 3]))
        others = [x for x in free_cons if x != c]
        for i, name in enumerate('ABC'[:n]):
            a = draw(st.sampled_from(
                legal_amounts(d, rp, rc, excluding=(c,)) or [1]))
            how = draw(st.sampled_from(['put', 'post', 'post2']))
            if how == 'put':
                reqs[name] = put_alloc(d, c, {(rp, rc): a}, v)
            elif how == 'post' or not others:
                reqs[name] = post_alloc(d, {c: {(rp, rc): a}}, v)
            else:
                reqs[name] = post_alloc(
                    d, {others[i % len(others)]: {(rp, rc): a},
                        c: {(rp, rc): a}}, v)
    elif kind == 'vs-inventory':
        c = new_or_held(0)
        reqs['A'] = put_alloc(d, c, {(rp, rc): amount_for(c)}, v)
        invs = current_inv_body(d, rp)
        how = draw(st.sampled_from(['shrink', 'drop', 'put-one',
                                    'delete-one']))
        g = d.providers[rp]['generation']
        if how == 'shrink':
            invs[rc] = dict(invs[rc])
            invs[rc]['total'] = max(1, invs[rc]['total'] // 2)
            invs[rc]['reserved'] = min(invs[rc]['reserved'],
                                       invs[rc]['total'] - 0)
            if invs[rc]['reserved'] >= invs[rc]['total'] and \
                    invs[rc]['total'] > 0:
                invs[rc]['reserved'] = 0
            reqs['B'] = gen.R(
                'PUT', '/resource_providers/%s/inventories' % rp, v,
                {'resource_provider_generation': g, 'inventories': invs},
                'put_inventories', [], target=rp)
        elif how == 'drop':
            invs.pop(rc)
            reqs['B'] = gen.R(
                'PUT', '/resource_providers/%s/inventories' % rp, v,
                {'resource_provider_generation': g, 'inventories': invs},
                'put_inventories', [], target=rp)
        elif how == 'delete-one':
            reqs['B'] = gen.R(
                'DELETE', '/resource_providers/%s/inventories/%s' % (rp, rc),
                v, None, 'delete_inventory', [], target=rp)
        else:
            one = dict(invs[rc])
            one['total'] = max(1, one['total'] - draw(st.integers(1, 4)))
            one['reserved'] = min(one['reserved'], one['total'])
            one['resource_provider_generation'] = g
            reqs['B'] = gen.R(
                'PUT', '/resource_providers/%s/inventories/%s' % (rp, rc), v,
                one, 'put_inventory', [], target=rp)
        if draw(st.integers(0, 2)) == 0 and free_cons:
            c2 = [x for x in free_cons if x != c][0]
            reqs['C'] = put_alloc(d, c2, {(rp, rc): amount_for(c2)}, v)
    elif kind == 'vs-delete':
        c = new_or_held(0)
        what = draw(st.sampled_from(['provider', 'inventories', 'allocs',
                                     'allocs-same', 'allocs-same']))
        if what == 'allocs-same' and held:
            # the PUT replaces the allocations of the very consumer whose
            # allocations are being deleted (fresh row ids in between)
            c = draw(st.sampled_from(held))
        reqs['A'] = put_alloc(d, c, {(rp, rc): amount_for(c)}, v)
        if what == 'allocs-same' and c in held and free_cons and \
                draw(st.booleans()):
            # one POST clearing that consumer while placing for another one
            reqs['A'] = post_alloc(
                d, {c: {}, free_cons[0]: {(rp, rc): amount_for(c)}}, v)
        if what == 'provider':
            reqs['B'] = gen.R('DELETE', '/resource_providers/' + rp, v, None,
                              'delete_rp', [], target=rp)
        elif what == 'inventories':
            reqs['B'] = gen.R('DELETE',
                              '/resource_providers/%s/inventories' % rp, v,
                              None, 'delete_inventories', [], target=rp)
        else:
            # DELETE /allocations/{c} carries no consumer generation: when it
            # targets the consumer the PUT writes, C07's oracle demands the
            # state invariants and 'errors have no effect' only, not serial
            # equivalence (see c07.oracle)
            tgt = c if what == 'allocs-same' else (
                draw(st.sampled_from(held)) if held else c)
            reqs['B'] = gen.R('DELETE', '/allocations/' + tgt, v, None,
                              'delete_allocations', [], consumers=[tgt])
    elif kind == 'move-vs-put':
        if not held:
            c1 = free_cons[0]
        else:
            c1 = draw(st.sampled_from(held))
        c2 = [x for x in (free_cons or gen.CONS) if x != c1][0]
        a = amount_for(c1)
        # move c1's usage to c2 atomically vs a PUT replacing c1's
        reqs['A'] = post_alloc(d, {c1: {}, c2: {(rp, rc): a}}
                               if c1 in d.consumers else
                               {c2: {(rp, rc): a}}, v)
        reqs['B'] = put_alloc(d, c1, {(rp, rc): amount_for(c1)}, v)
    elif kind == 'traitagg-vs-alloc':
        c = new_or_held(0)
        reqs['A'] = put_alloc(d, c, {(rp, rc): amount_for(c)}, v)
        g = d.providers[rp]['generation']
        if draw(st.booleans()):
            cur = {t for (p, t) in d.rp_traits if p == rp}
            new = sorted(cur ^ {draw(st.sampled_from(gen.TRAITS[1:]))})
            reqs['B'] = gen.R('PUT', '/resource_providers/%s/traits' % rp, v,
                              {'resource_provider_generation': g,
                               'traits': new}, 'put_rp_traits', [], target=rp)
        else:
            cur = {a for (p, a) in d.rp_aggs if p == rp}
            new = sorted(cur ^ {draw(st.sampled_from(gen.AGGS))})
            reqs['B'] = gen.R('PUT', '/resource_providers/%s/aggregates' % rp,
                              v, {'resource_provider_generation': g,
                                  'aggregates': new}, 'put_rp_aggregates', [],
                              target=rp)
        if draw(st.integers(0, 2)) == 0 and free_cons:
            c2 = [x for x in free_cons if x != c][0]
            reqs['C'] = post_alloc(d, {c2: {(rp, rc): amount_for(c2)}}, v)
    else:  # reshape-vs-alloc
        c = new_or_held(0)
        reqs['A'] = put_alloc(d, c, {(rp, rc): amount_for(c)}, v)
        invs = current_inv_body(d, rp)
        invs[rc] = dict(invs[rc])
        invs[rc]['total'] = max(1, invs[rc]['total'] - 1)
        invs[rc]['reserved'] = min(invs[rc]['reserved'], invs[rc]['total'])
        entries = {}
        on_rp = sorted({cc for (cc, p, k) in d.allocations if p == rp})
        for cc in on_rp[:2]:
            entries[cc] = {(p, k): a for (x, p, k), a in d.allocations.items()
                           if x == cc}
        reqs['B'] = reshape_req(d, {rp: invs}, entries, v)
    return reqs


# ------------------------------------------------------------------- C05
def _gen_choice(draw, cur, mode):
    if mode == 'current':
        return cur
    return draw(st.sampled_from([cur, cur, cur - 1, cur + 1, 0]))


def provider_write(draw, d, rp, v, g, changing=True):
    """A generation-carrying write on provider rp that changes something."""
    kinds = ['put_inventories', 'put_rp_traits', 'put_rp_aggregates',
             'reshaper', 'reshaper']
    mine = sorted(rc for (p, rc) in d.inventories if p == rp)
    if mine:
        kinds += ['put_inventory', 'put_inventory']
    kind = draw(st.sampled_from(kinds))
    used = {rc for (_c, p, rc) in d.allocations if p == rp}
    if kind == 'put_inventories' or kind == 'reshaper':
        invs = current_inv_body(d, rp)
        choice = draw(st.integers(0, 4))
        addable = [rc for rc in gen.CLASSES if rc not in invs]
        droppable = [rc for rc in invs if rc not in used]
        empty_out = kind == 'reshaper' and choice >= 3
        if empty_out:
            # everything moves away: no inventory left and every consumer
            # allocated here cleared, so the provider's first generation
            # compare-and-swap happens inside the allocation write
            invs = {}
        elif choice == 0 and addable:
            invs[draw(st.sampled_from(addable))] = {'total': draw(
                st.integers(1, 12))}
        elif choice == 1 and droppable:
            invs.pop(draw(st.sampled_from(sorted(droppable))))
        elif invs:
            rc = draw(st.sampled_from(sorted(invs)))
            invs[rc] = dict(invs[rc])
            invs[rc]['total'] += draw(st.integers(1, 3))
        else:
            invs['VCPU'] = {'total': draw(st.integers(1, 12))}
        if kind == 'reshaper':
            if v < (1, 30):
                v = (1, 38)
            entries = {}
            if empty_out:
                entries = {c: {} for c in sorted(
                    {c for (c, p, _k) in d.allocations if p == rp})}
            elif draw(st.booleans()):
                # re-state the allocations of consumers on this provider, so
                # that the provider appears under inventories AND allocations
                on_rp = sorted({c for (c, p, _k) in d.allocations if p == rp})
                for c in on_rp[:2]:
                    entries[c] = {(p, k): a
                                  for (x, p, k), a in d.allocations.items()
                                  if x == c}
                    for (p, k) in list(entries[c]):
                        if p == rp and k not in invs:
                            del entries[c][(p, k)]
                    if not entries[c]:
                        del entries[c]
            inv_all = {rp: invs}
            others = [x for x in sorted(d.providers) if x != rp]
            if others and draw(st.integers(0, 2)) == 0:
                # a second provider, restated unchanged with its current
                # generation, listed AFTER the contended one
                o = draw(st.sampled_from(others))
                inv_all[o] = current_inv_body(d, o)
            r = reshape_req(d, inv_all, entries, v, rp_gens={rp: g})
            r['target'] = rp
            return r
        return gen.R('PUT', '/resource_providers/%s/inventories' % rp, v,
                     {'resource_provider_generation': g, 'inventories': invs},
                     'put_inventories', [], target=rp, carried=g)
    if kind == 'put_inventory':
        rc = draw(st.sampled_from(mine))
        one = dict(d.inventories[(rp, rc)])
        one['total'] += draw(st.integers(1, 3))
        one['resource_provider_generation'] = g
        return gen.R('PUT', '/resource_providers/%s/inventories/%s'
                     % (rp, rc), v, one, 'put_inventory', [], target=rp,
                     carried=g)
    if kind == 'put_rp_traits':
        cur = {t for (p, t) in d.rp_traits if p == rp}
        new = sorted(cur ^ {draw(st.sampled_from(gen.TRAITS[1:]))})
        return gen.R('PUT', '/resource_providers/%s/traits' % rp, v,
                     {'resource_provider_generation': g, 'traits': new},
                     'put_rp_traits', [], target=rp, carried=g)
    cur = {a for (p, a) in d.rp_aggs if p == rp}
    new = sorted(cur ^ {draw(st.sampled_from(gen.AGGS))})
    if v < (1, 19):
        v = (1, 19)
    return gen.R('PUT', '/resource_providers/%s/aggregates' % rp, v,
                 {'resource_provider_generation': g, 'aggregates': new},
                 'put_rp_aggregates', [], target=rp, carried=g)


def self_deriving(draw, d, rp, v, idx):
    mine = sorted(rc for (p, rc) in d.inventories if p == rp)
    used = {rc for (_c, p, rc) in d.allocations if p == rp}
    kinds = ['post_inventory', 'delete_rp_traits', 'delete_rp']
    if mine:
        kinds += ['delete_inventory', 'put_allocations', 'post_allocations']
        if v >= (1, 5):
            kinds.append('delete_inventories')
    kind = draw(st.sampled_from(kinds))
    if kind == 'post_inventory':
        addable = [rc for rc in gen.CLASSES if rc not in mine] or gen.CLASSES
        return gen.R('POST', '/resource_providers/%s/inventories' % rp, v,
                     {'resource_class': draw(st.sampled_from(addable)),
                      'total': draw(st.integers(1, 12))}, 'post_inventory',
                     [], target=rp)
    if kind == 'delete_rp_traits':
        return gen.R('DELETE', '/resource_providers/%s/traits' % rp, v, None,
                     'delete_rp_traits', [], target=rp)
    if kind == 'delete_rp':
        return gen.R('DELETE', '/resource_providers/' + rp, v, None,
                     'delete_rp', [], target=rp)
    if kind == 'delete_inventory':
        free = [rc for rc in mine if rc not in used] or mine
        return gen.R('DELETE', '/resource_providers/%s/inventories/%s'
                     % (rp, draw(st.sampled_from(free))), v, None,
                     'delete_inventory', [], target=rp)
    if kind == 'delete_inventories':
        return gen.R('DELETE', '/resource_providers/%s/inventories' % rp, v,
                     None, 'delete_inventories', [], target=rp)
    roomy = [rc for rc in mine if legal_amounts(d, rp, rc)]
    rc = draw(st.sampled_from(roomy or mine))
    amts = legal_amounts(d, rp, rc) or [1]
    free_cons = [c for c in gen.CONS if c not in d.consumers]
    c = free_cons[idx % len(free_cons)] if free_cons else gen.CONS[idx]
    va = v if v >= (1, 28) else (1, 28)
    if kind == 'put_allocations':
        return put_alloc(d, c, {(rp, rc): draw(st.sampled_from(amts))}, va)
    return post_alloc(d, {c: {(rp, rc): draw(st.sampled_from(amts))}}, va)


def provider_race_case(draw, d):
    """C05: 2-3 concurrent requests on one provider."""
    if not d.providers:
        return None
    cands = sorted(d.providers)
    with_inv = sorted({p for (p, _rc) in d.inventories})
    used_rps = sorted({p for (_c, p, _k) in d.allocations})
    if used_rps and draw(st.booleans()):
        # a provider consumers are allocated on: writes on it go through the
        # allocation path's generation handling as well
        rp = draw(st.sampled_from(used_rps))
    else:
        rp = draw(st.sampled_from(with_inv or cands))
    cur = d.providers[rp]['generation']
    n = draw(st.sampled_from([2, 2, 3]))
    mode = draw(st.sampled_from(['current', 'current', 'mixed']))
    v = (1, draw(st.sampled_from([39, 38, 30, 28, 23, 22, 19])))
    reqs = {}
    ncarry = 0
    for i, name in enumerate('ABC'[:n]):
        if i < 2 and (i == 0 or draw(st.integers(0, 9)) < 7):
            reqs[name] = provider_write(draw, d, rp, v,
                                        _gen_choice(draw, cur, mode))
            ncarry += 1
        else:
            reqs[name] = self_deriving(draw, d, rp, v, i)
    if draw(st.integers(0, 4)) == 4:
        # the same request submitted twice (client retry / double submit):
        # the second copy changes nothing once the first is committed
        import copy
        reqs['B'] = copy.deepcopy(reqs['A'])
    elif draw(st.integers(0, 5)) == 5:
        # the provider is deleted and created again under the same uuid
        # while a generation-carrying write is in flight (a new provider,
        # whose generation starts again at 0)
        free = [u for u in sorted(d.providers) if not d.children(u) and
                not any(p == u for (_c, p, _k) in d.allocations)]
        if free:
            rp2 = draw(st.sampled_from(free))
            p2 = d.providers[rp2]
            body = {'name': p2['name'], 'uuid': rp2}
            if p2['parent'] is not None:
                body['parent_provider_uuid'] = p2['parent']
            reqs = {
                'A': provider_write(draw, d, rp2, v,
                                    d.providers[rp2]['generation']),
                'B': gen.R('DELETE', '/resource_providers/' + rp2, v, None,
                           'delete_rp', [], target=rp2),
                'C': gen.R('POST', '/resource_providers',
                           v if v >= (1, 14) else (1, 14), body, 'create_rp',
                           ['recreate'])}
    return reqs


# ------------------------------------------------------------------- C06
def consumer_race_case(draw, d):
    """C06: 2-3 concurrent allocation writes touching a common consumer."""
    pairs = sorted(k for k in d.inventories if legal_amounts(d, *k))
    if not pairs:
        return None
    held = sorted(d.consumers)
    free_cons = [c for c in gen.CONS if c not in d.consumers]
    # the same request submitted twice (a client retry racing the original):
    # the most common real-world shape of this race; mostly for a consumer
    # that exists, with its current generation
    double = draw(st.integers(0, 2)) == 2
    if held and (double or draw(st.integers(0, 2)) > 0):
        c = draw(st.sampled_from(held))
        cur = d.consumers[c]['generation']
        gens = [cur, cur, cur + 1, cur - 1 if cur > 0 else None, None]
    else:
        if not free_cons:
            return None
        c = free_cons[0]
        cur = None
        gens = [None, None, None, 0, 1]
    mode = draw(st.sampled_from(['same', 'same', 'mixed']))
    if double:
        mode = 'same'
    n = draw(st.sampled_from([2, 2, 3]))
    v = (1, draw(st.sampled_from([39, 39, 38, 38, 37, 34, 30, 28])))
    reqs = {}
    others = [x for x in free_cons if x != c]
    for i, name in enumerate('ABC'[:n]):
        g = cur if mode == 'same' else draw(st.sampled_from(gens))
        rp, rc = draw(st.sampled_from(pairs))
        amts = legal_amounts(d, rp, rc, excluding=(c,)) or [1]
        a = draw(st.sampled_from(amts))
        kind = draw(st.sampled_from(['put', 'put', 'post', 'post2',
                                     'reshape', 'clear']))
        if kind == 'clear' and cur is None:
            kind = 'put'
        if kind == 'put':
            reqs[name] = put_alloc(d, c, {(rp, rc): a}, v, gen_override=g,
                                   project=draw(st.sampled_from(
                                       gen.PROJECTS)),
                                   ctype=draw(st.sampled_from(gen.CTYPES)))
        elif kind == 'clear':
            reqs[name] = put_alloc(d, c, {}, v, gen_override=g)
        elif kind == 'post':
            reqs[name] = post_alloc(d, {c: {(rp, rc): a}}, v, gens={c: g})
        elif kind == 'post2' and others:
            o = others[i % len(others)]
            reqs[name] = post_alloc(d, {o: {(rp, rc): 1 if 1 in amts else a},
                                        c: {(rp, rc): a}}, v, gens={c: g})
        else:
            vr = v if v >= (1, 30) else (1, 30)
            reqs[name] = reshape_req(
                d, {rp: current_inv_body(d, rp)}, {c: {(rp, rc): a}}, vr,
                gens={c: g})
        reqs[name]['carried_consumer'] = [c, g]
    if double:
        import copy
        reqs['B'] = copy.deepcopy(reqs['A'])
    return reqs
