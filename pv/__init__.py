"""Property-based verification machinery for openstack/placement (see DESIGN.md)."""
