"""Engine B driver: (state, query) generation against the brute-force
reference; shared by C02, C03, C13, C20."""
import json

import hypothesis
from hypothesis import HealthCheck, Phase, given, settings, strategies as st

from pv import acref, bgen, machine
from pv.dump import dump
from pv.runner import Violation, stable_hash


def canon_response(body, version):
    """allocation_requests of a response -> list of canonical
    (allocations, mappings|None)."""
    out = []
    for ar in body['allocation_requests']:
        al = ar['allocations']
        items = set()
        if isinstance(al, list):
            for e in al:
                for rc, amt in e['resources'].items():
                    items.add((e['resource_provider']['uuid'], rc, amt))
        else:
            for rp, x in al.items():
                for rc, amt in x['resources'].items():
                    items.add((rp, rc, amt))
        maps = None
        if 'mappings' in ar:
            maps = frozenset((s, frozenset(v))
                             for s, v in ar['mappings'].items())
        out.append((frozenset(items), maps))
    return out


def features(d, q):
    w = acref.World(d)
    f = set()
    if any(w.parent[p] for p in w.providers):
        f.add('nesting')
    if w.sharing:
        f.add('sharing')
    if len(q.groups) >= 2:
        f.add('multi-group')
    gs = list(q.groups.values())
    if any(g.required or g.forbidden for g in gs):
        f.add('traits')
    if any(g.member_of or g.forbidden_aggs for g in gs):
        f.add('aggregates')
    if any(g.in_tree for g in gs):
        f.add('in_tree')
    if q.same_subtree:
        f.add('same_subtree')
    if q.group_policy == 'isolate':
        f.add('isolate')
    if q.root_required or q.root_forbidden:
        f.add('root_required')
    seen = set()
    for g in gs:
        for rc in g.resources:
            if rc in seen:
                f.add('overlapping-classes')
            seen.add(rc)
    if w.usage:
        f.add('usage')
    if any(not g.resources for g in gs):
        f.add('resourceless')
    return f


def show(c):
    al, maps = c
    if isinstance(maps, int):
        return {'allocations': sorted([list(x) for x in al]),
                'multiplicity': maps}
    return {'allocations': sorted([list(x) for x in al]),
            'mappings': (None if maps is None else
                         {s: sorted(v) for s, v in sorted(maps)})}


def run_cases(ctx, case_fn, examples, queries_per_state=12, rounds=3):
    """Hypothesis loop: draw a state, build it through the API, then call
    case_fn(ctx, svc, d, draw, desc) `queries_per_state` times.  case_fn
    raises Violation; failures are collected per signature and the search
    continues behind them."""
    svc = machine.service()
    base = machine.base_snapshot(svc)
    skip = set()
    last = {}

    def body(data):
        desc = data.draw(bgen.states_mixed())
        bgen.build_state(svc, desc, base)
        d = dump(svc.dbpath)
        snap = svc.snapshot()
        for _ in range(queries_per_state):
            try:
                case_fn(ctx, svc, d, data.draw, desc, snap)
            except Violation as v:
                sig = dict(v.signature)
                sig.setdefault('prop', ctx.prop)
                known = ctx.known.match(sig)
                if known is not None:
                    ctx.stats.known[known['id']] = \
                        ctx.stats.known.get(known['id'], 0) + 1
                    continue
                key = json.dumps(sig, sort_keys=True, default=str)
                if key in skip:
                    continue
                rec = {'signature': sig, 'detail': v.detail,
                       'replay': {'state': desc, 'case': (v.detail or {}).get(
                           'case')}}
                last['fail'] = (key, rec)
                raise

    for rnd in range(rounds):
        last.pop('fail', None)
        test = given(st.data())(body)
        test = hypothesis.seed(ctx.seed + rnd)(test)
        test = settings(
            max_examples=examples if rnd == 0 else max(5, examples // 3),
            deadline=None, database=None,
            suppress_health_check=list(HealthCheck),
            report_multiple_bugs=False, print_blob=False,
            phases=[Phase.generate],
            verbosity=hypothesis.Verbosity.quiet)(test)
        try:
            test()
            break
        except (Violation, hypothesis.errors.Flaky) as exc:
            # Flaky: the tested code answered differently when Hypothesis
            # re-ran the failing example (e.g. hash-order dependence); the
            # violation recorded at its first occurrence stands
            if 'fail' not in last:
                raise
            key, rec = last['fail']
            if not isinstance(exc, Violation):
                rec['detail'] = dict(rec.get('detail') or {},
                                     nondeterministic_on_rerun=True)
            skip.add(key)
            rec = minimise_state(ctx, svc, base, rec, key)
            ctx.stats.violations.append(rec)


def minimise_state(ctx, svc, base, rec, key):
    """Shrink the state description of a failing (state, case): drop
    consumers, aggregates, traits, inventories and leaf providers while the
    recorded case still fails with the same signature."""
    import copy
    from pv.runner import _load
    mod = _load(ctx.prop)
    case = rec['replay']['case']
    if case is None or not hasattr(mod, 'replay_case'):
        return rec
    quiet = machine.Ctx0(ctx)
    quiet.prop = ctx.prop
    best = {'rec': rec}

    def fails(desc):
        try:
            bgen.build_state(svc, desc, base)
        except AssertionError:
            return False
        d = dump(svc.dbpath)
        try:
            mod.replay_case(quiet, svc, d, case, desc)
        except Violation as v:
            sig = dict(v.signature)
            sig.setdefault('prop', ctx.prop)
            if json.dumps(sig, sort_keys=True, default=str) == key:
                best['rec'] = {'signature': sig, 'detail': v.detail,
                               'replay': {'state': desc, 'case': case}}
                return True
        except Exception:
            return False
        return False

    desc = copy.deepcopy(rec['replay']['state'])
    budget = [120]

    def attempt(new):
        if budget[0] <= 0:
            return False
        budget[0] -= 1
        return fails(new)

    changed = True
    while changed and budget[0] > 0:
        changed = False
        for i in range(len(desc['consumers']) - 1, -1, -1):
            new = copy.deepcopy(desc)
            del new['consumers'][i]
            if attempt(new):
                desc, changed = new, True
        # leaf providers not referenced by the case
        for i in range(len(desc['providers']) - 1, -1, -1):
            if any(p['parent'] == i for p in desc['providers']):
                continue
            u = desc['providers'][i]['uuid']
            if u in json.dumps(case):
                continue
            new = copy.deepcopy(desc)
            del new['providers'][i]
            for p in new['providers']:
                if p['parent'] is not None and p['parent'] > i:
                    p['parent'] -= 1
            new['consumers'] = [
                {'uuid': c['uuid'],
                 'alloc': [[j - (1 if j > i else 0), rc, a]
                           for (j, rc, a) in c['alloc'] if j != i]}
                for c in new['consumers']]
            new['consumers'] = [c for c in new['consumers'] if c['alloc']]
            if attempt(new):
                desc, changed = new, True
        for i, p in enumerate(desc['providers']):
            for field in ('aggs', 'traits'):
                for x in list(p[field]):
                    new = copy.deepcopy(desc)
                    new['providers'][i][field].remove(x)
                    if attempt(new):
                        desc, changed = new, True
            for rc in list(p['invs']):
                if any(j == i and k == rc for c in desc['consumers']
                       for (j, k, _a) in c['alloc']):
                    continue
                new = copy.deepcopy(desc)
                del new['providers'][i]['invs'][rc]
                if attempt(new):
                    desc, changed = new, True
    return best['rec']


def replay_case(ctx, mod, data):
    svc = machine.service()
    base = machine.base_snapshot(svc)
    bgen.build_state(svc, data['state'], base)
    d = dump(svc.dbpath)
    try:
        mod.replay_case(ctx, svc, d, data['case'], data['state'])
    except Violation as v:
        sig = dict(v.signature)
        sig.setdefault('prop', ctx.prop)
        if ctx.known.match(sig) is not None:
            print('(matches a known finding)')
        return [{'signature': sig, 'detail': v.detail}]
    return []


def summary_membership(d, body, version, case):
    """Which providers are summarised, for an UNLIMITED request [A
    provider_summaries]: below 1.29 the providers included in the allocation
    requests; from 1.29 additionally all providers of the trees those belong
    to.  (Documented surface per microversion: judged by C14.)"""
    w = acref.World(d)
    sums = body['provider_summaries']
    named = set()
    for ar in body['allocation_requests']:
        al = ar['allocations']
        if isinstance(al, list):
            named |= {e['resource_provider']['uuid'] for e in al}
        else:
            named |= set(al)
    # which providers are summarised [A provider_summaries]: below 1.29 the
    # providers included in the allocation requests; from 1.29 additionally
    # all providers of the trees those belong to
    if version < 29:
        extra = sorted(set(sums) - named)
        if extra:
            raise Violation({'clause': 'summary-of-provider-not-in-any-'
                                       'allocation-request'},
                            {'case': case, 'providers': extra})
    else:
        roots = {w.root[u] for u in named}
        allowed = {u for u in d.providers if w.root[u] in roots}
        extra = sorted(set(sums) - allowed)
        missing = sorted(allowed - set(sums))
        if extra:
            raise Violation({'clause': 'summary-of-provider-outside-the-'
                                       'trees-used'},
                            {'case': case, 'providers': extra})
        if missing:
            raise Violation({'clause': 'tree-member-without-summary'},
                            {'case': case, 'providers': missing})


def summaries_check(d, body, version, requested_classes, case):
    """C02(3): every provider named in an allocation request has a
    provider_summaries entry whose capacity/used (and traits, parent/root
    where the version exposes them) equal the values derived from the dump."""
    w = acref.World(d)
    sums = body['provider_summaries']
    named = set()
    for ar in body['allocation_requests']:
        al = ar['allocations']
        if isinstance(al, list):
            named |= {e['resource_provider']['uuid'] for e in al}
        else:
            named |= set(al)
    for u in sorted(named):
        if u not in d.providers:
            raise Violation({'clause': 'names-unknown-provider'},
                            {'case': case, 'provider': u})
        if u not in sums:
            raise Violation({'clause': 'named-provider-without-summary'},
                            {'case': case, 'provider': u})
    for u, s in sums.items():
        if u not in d.providers:
            raise Violation({'clause': 'summary-of-unknown-provider'},
                            {'case': case, 'provider': u})
        want = {}
        for (p, rc), inv in d.inventories.items():
            if p != u:
                continue
            if version < 27 and rc not in requested_classes:
                continue
            want[rc] = {'capacity': int((inv['total'] - inv['reserved']) *
                                        inv['allocation_ratio']),
                        'used': w.usage.get((p, rc), 0)}
        if s['resources'] != want:
            raise Violation({'clause': 'summary-resources-wrong'},
                            {'case': case, 'provider': u,
                             'got': s['resources'], 'want': want})
        if version >= 17:
            if sorted(s['traits']) != sorted(w.traits[u]) or \
                    len(s['traits']) != len(set(s['traits'])):
                raise Violation({'clause': 'summary-traits-wrong'},
                                {'case': case, 'provider': u,
                                 'got': s['traits'],
                                 'want': sorted(w.traits[u])})
        elif 'traits' in s:
            raise Violation({'clause': 'summary-traits-before-1.17'},
                            {'case': case})
        if version >= 29:
            if s['parent_provider_uuid'] != w.parent[u] or \
                    s['root_provider_uuid'] != w.root[u]:
                raise Violation({'clause': 'summary-parent-root-wrong'},
                                {'case': case, 'provider': u,
                                 'got': [s['parent_provider_uuid'],
                                         s['root_provider_uuid']],
                                 'want': [w.parent[u], w.root[u]]})
