"""Engine D: statement-level database faults and process-crash points.

Faults are raised from the dialect-level do_execute* events, i.e. inside
SQLAlchemy's own try/except around the DBAPI call, so that they travel through
_handle_dbapi_exception, oslo.db's handle_error filters and wrap_db_retry
exactly like a driver error.  Nothing in placement is patched.
"""
import os
import sqlite3
import sys

from sqlalchemy import event
from sqlalchemy import exc as sqla_exc

KINDS = ['deadlock-rollback', 'deadlock-open', 'duplicate', 'io-error',
         'disconnect']
RETRY_FRAMES = {
    'deadlock': [('placement/objects/allocation.py', '_set_allocations'),
                 ('placement/objects/trait.py', '_trait_sync'),
                 ('placement/objects/resource_class.py',
                  '_resource_classes_sync')],
    'duplicate': [('placement/objects/resource_provider.py',
                   '_set_aggregates')],
}
UNIQUE_KEYS = {
    'projects': 'projects.external_id',
    'users': 'users.external_id',
    'consumers': 'consumers.uuid',
    'consumer_types': 'consumer_types.name',
    'placement_aggregates': 'placement_aggregates.uuid',
    'resource_providers': 'resource_providers.uuid',
    'resource_classes': 'resource_classes.name',
    'traits': 'traits.name',
    'inventories': 'inventories.resource_provider_id, '
                   'inventories.resource_class_id',
    'resource_provider_aggregates':
        'resource_provider_aggregates.resource_provider_id, '
        'resource_provider_aggregates.aggregate_id',
    'resource_provider_traits':
        'resource_provider_traits.trait_id, '
        'resource_provider_traits.resource_provider_id',
}


class Injector(object):
    _inst = None

    def __init__(self, svc):
        self.svc = svc
        self.armed = None          # (index, kind)
        self.count = 0
        self.statements = []
        self.fired = None          # info about the injection that happened
        self.sleeps = 0
        self.crash = None          # (event-name, index) for C18
        self.events = 0
        self.recording = False
        self._install()

    @classmethod
    def get(cls, svc):
        if cls._inst is None:
            cls._inst = cls(svc)
        return cls._inst

    def _install(self):
        from oslo_db import api as oslo_api
        from oslo_db.sqlalchemy import exc_filters
        eng = self.svc.engine

        # map the injected "deadlock" to DBDeadlock the way the MySQL 1213 /
        # PostgreSQL 40P01 filters do
        exc_filters.filters(
            'sqlite', sqla_exc.OperationalError,
            r'.*PV injected deadlock.*')(exc_filters._deadlock_error)

        inj = self

        class _Sleep(object):
            def sleep(self, secs):
                inj.sleeps += 1

            def __getattr__(self, name):
                import time as _t
                return getattr(_t, name)
        oslo_api.time = _Sleep()

        def on_stmt(cursor, statement, parameters, context=None):
            return inj._statement(cursor, statement, parameters, False)

        def on_many(cursor, statement, parameters, context=None):
            return inj._statement(cursor, statement, parameters, True)

        event.listen(eng, 'do_execute', on_stmt)
        event.listen(eng, 'do_executemany', on_many)

        def on_stmt_np(cursor, statement, context=None):
            return inj._statement(cursor, statement, None, False)
        event.listen(eng, 'do_execute_no_params', on_stmt_np)

        # crash-point events (C18)
        def before(conn, cursor, statement, parameters, context, many):
            inj._crash_event('before-statement')

        def after(conn, cursor, statement, parameters, context, many):
            inj._crash_event('after-statement')

        def commit(conn):
            inj._crash_event('before-commit')

        def checkin(dbapi_con, rec):
            inj._crash_event('after-transaction')
        event.listen(eng, 'before_cursor_execute', before)
        event.listen(eng, 'after_cursor_execute', after)
        event.listen(eng, 'commit', commit)
        event.listen(eng.pool, 'checkin', checkin)

    # ---------------------------------------------------------------- faults
    def start(self, index=None, kind=None):
        self.count = 0
        self.statements = []
        self.fired = None
        self.sleeps = 0
        self.armed = (index, kind) if index is not None else None
        self.recording = True

    def stop(self):
        self.recording = False
        self.armed = None
        return self.count

    def _statement(self, cursor, statement, parameters=None, many=False):
        if not self.recording:
            return
        k = self.count
        self.count += 1
        if len(self.statements) < 400:
            self.statements.append(statement[:80])
        if self.armed is None or self.armed[0] != k or self.fired:
            return
        kind = self.armed[1]
        info = {'index': k, 'kind': kind, 'statement': statement[:120],
                'frames': self._placement_frames()}
        head = statement.lstrip().upper()
        if kind == 'duplicate':
            table = None
            if head.startswith('INSERT INTO'):
                table = statement.split()[2].strip('"')
            if table not in UNIQUE_KEYS:
                info['skipped'] = 'not an INSERT into a table with a unique key'
                self.fired = info
                return
            self.fired = info
            # A duplicate-key error means that a racing process has just
            # inserted the same row.  Emulate that faithfully: the row is
            # made to exist (the INSERT is really executed) and then the
            # driver error is raised, so code that reacts with "someone else
            # did it" sees a consistent database.
            try:
                if many:
                    cursor.executemany(statement, parameters)
                elif parameters is None:
                    cursor.execute(statement)
                else:
                    cursor.execute(statement, parameters)
            except sqlite3.Error:
                pass
            raise sqlite3.IntegrityError(
                'UNIQUE constraint failed: %s' % UNIQUE_KEYS[table])
        self.fired = info
        if kind == 'deadlock-rollback':
            # what MySQL does to the victim of a deadlock: the server rolls
            # the whole transaction back before reporting the error
            if not head.startswith('BEGIN'):
                try:
                    cursor.execute('ROLLBACK')
                except sqlite3.Error:
                    pass
                cursor.execute('BEGIN')
            raise sqlite3.OperationalError('PV injected deadlock (1213)')
        if kind == 'deadlock-open':
            # lock wait timeout: statement fails, transaction stays open
            raise sqlite3.OperationalError('PV injected deadlock (1205)')
        if kind == 'io-error':
            raise sqlite3.OperationalError('disk I/O error')
        if kind == 'disconnect':
            raise sqlite3.OperationalError(
                'PV injected: server has gone away')
        raise AssertionError(kind)

    @staticmethod
    def _placement_frames():
        out = []
        f = sys._getframe(2)
        while f is not None:
            fn = f.f_code.co_filename
            if '/placement/' in fn and '/tests/' not in fn:
                out.append((fn[fn.index('/placement/') + 1:],
                            f.f_code.co_name))
            f = f.f_back
        return out

    @staticmethod
    def in_retry_scope(info):
        kind = 'deadlock' if info['kind'].startswith('deadlock') \
            else info['kind']
        for (fn, name) in RETRY_FRAMES.get(kind, []):
            for (ffn, fname) in info['frames']:
                if ffn == fn and fname == name:
                    return True
        return False

    # ---------------------------------------------------------------- crashes
    def arm_crash(self, index):
        self.crash = index
        self.events = 0
        self.crash_log = []

    def count_events(self):
        self.crash = -1
        self.events = 0
        self.crash_log = []

    def _crash_event(self, name):
        if self.crash is None:
            return
        k = self.events
        self.events += 1
        if self.crash == -1:
            self.crash_log.append(name)
            return
        if k == self.crash:
            # the process dies: no except/finally/context manager runs
            os._exit(137)
