"""Oracles over (request, response, dump before, dump after).

Each oracle asserts only what its property statement says.  They read raw
dumps; nothing here imports placement.
"""
import re

from pv import gen
from pv.dump import diff
from pv.runner import Violation

RP_PATH = re.compile(r'^/resource_providers/([^/?]+)$')
RP_SUB = re.compile(r'^/resource_providers/([^/?]+)/([a-z_]+)(?:/([^/?]+))?$')


def vt(req):
    return gen.vt(req['v']) if req.get('v') else (1, 0)


def fail(clause, detail=None, **sig):
    s = {'clause': clause}
    s.update(sig)
    raise Violation(s, detail)


def unchanged(before, after, clause, keys=None):
    df = diff(before, after, keys)
    if df:
        fail(clause, {'diff': df[:12]})


# ---------------------------------------------------------------------- C09
def forest_invariant(after, clause_prefix='forest'):
    for msg in after.dangling:
        if msg.startswith('provider '):
            fail(clause_prefix + ':dangling-parent-or-root', msg)
    for u, p in after.providers.items():
        root = after.computed_root(u)
        if root is None:
            fail(clause_prefix + ':cycle-or-missing-parent', {'provider': u})
        if root != p['root']:
            fail(clause_prefix + ':wrong-root',
                 {'provider': u, 'stored_root': p['root'],
                  'computed_root': root})


def c09_oracle(m, req, resp, before, after):
    forest_invariant(after)
    v = vt(req)
    if req['m'] == 'POST' and req['p'] == '/resource_providers':
        body = req['b']
        parent = body.get('parent_provider_uuid') if v >= (1, 14) else None
        if parent is not None and (parent not in before.providers or
                                   parent == body.get('uuid')):
            if resp.status not in (400, 409):
                fail('create-bad-parent-accepted', {'status': resp.status})
            unchanged(before, after, 'rejected-create-changed-state')
        elif resp.ok:
            u = body['uuid']
            if u not in after.providers:
                fail('created-provider-missing')
            if after.providers[u]['parent'] != parent:
                fail('created-provider-wrong-parent',
                     {'want': parent, 'got': after.providers[u]['parent']})
        return
    mt = RP_PATH.match(req['p'])
    if not mt:
        return
    u = mt.group(1)
    if req['m'] == 'PUT' and u in before.providers:
        body = req['b']
        cur = before.providers[u]['parent']
        if v >= (1, 14) and 'parent_provider_uuid' in body:
            new = body['parent_provider_uuid']
            bad = None
            if new is not None and new not in before.providers:
                bad = 'missing-parent'
            elif new is not None and (new == u or
                                      new in gen.descendants(before, u)):
                bad = 'loop'
            elif v < (1, 37) and cur is not None and new != cur:
                bad = 'move-before-1.37'
            if bad:
                if resp.status not in (400, 409):
                    fail('structural-request-accepted:' + bad,
                         {'status': resp.status})
                unchanged(before, after, 'rejected-update-changed-state')
            elif resp.ok:
                if after.providers[u]['parent'] != new:
                    fail('update-parent-not-applied',
                         {'want': new, 'got': after.providers[u]['parent']})
        elif resp.ok:
            if after.providers[u]['parent'] != cur:
                fail('rename-changed-parent')
        if not resp.ok:
            unchanged(before, after, 'rejected-update-changed-state')
    elif req['m'] == 'DELETE' and u in before.providers:
        if before.children(u):
            if resp.status != 409:
                fail('delete-parent-accepted', {'status': resp.status})
            unchanged(before, after, 'rejected-delete-changed-state')
        elif resp.ok and u in after.providers:
            fail('deleted-provider-still-present')
        elif not resp.ok:
            unchanged(before, after, 'rejected-delete-changed-state')


def c09_api_view(m, draw):
    """GET views agree with the raw forest (>= 1.14)."""
    from hypothesis import strategies as st
    d = m.d
    if not d.providers:
        return
    u = draw(st.sampled_from(sorted(d.providers)))
    v = '1.%d' % draw(st.sampled_from([14, 36, 37, 39]))
    r = m.svc.request('GET', '/resource_providers/' + u, version=v)
    m.rec.ctx.stats.evaluations += 1
    if r.status != 200:
        fail('get-provider-failed', {'status': r.status}, op='GET rp')
    want_root = d.computed_root(u)
    if (r.json.get('root_provider_uuid') != want_root or
            r.json.get('parent_provider_uuid') != d.providers[u]['parent']):
        fail('get-provider-wrong-root-or-parent',
             {'got': [r.json.get('parent_provider_uuid'),
                      r.json.get('root_provider_uuid')],
              'want': [d.providers[u]['parent'], want_root]}, op='GET rp')
    r = m.svc.request('GET', '/resource_providers?in_tree=' + u, version=v)
    m.rec.ctx.stats.evaluations += 1
    if r.status != 200:
        fail('in-tree-failed', {'status': r.status}, op='GET in_tree')
    got = sorted(p['uuid'] for p in r.json['resource_providers'])
    want = sorted(x for x in d.providers if d.computed_root(x) == want_root)
    if got != want:
        fail('in-tree-wrong-set', {'got': got, 'want': want},
             op='GET in_tree')
    for p in r.json['resource_providers']:
        if p['root_provider_uuid'] != want_root:
            fail('in-tree-wrong-root', {'provider': p['uuid']},
                 op='GET in_tree')


# ---------------------------------------------------------------------- C08
def integrity_invariant(after, clause_prefix='integrity'):
    for msg in after.dangling:
        fail(clause_prefix + ':dangling', msg,
             kind=msg.split(' ')[0])


def c08_oracle(m, req, resp, before, after):
    integrity_invariant(after)
    if req['m'] != 'DELETE':
        return
    p = req['p']
    mt = RP_PATH.match(p)
    if mt:
        u = mt.group(1)
        if u not in before.providers:
            return
        has_alloc = any(rp == u for (_c, rp, _k) in before.allocations)
        if before.children(u) or has_alloc:
            if resp.status != 409:
                fail('delete-provider-in-use-accepted',
                     {'status': resp.status, 'children': before.children(u),
                      'allocations': has_alloc})
            unchanged(before, after, 'refused-delete-changed-state')
        else:
            if resp.status != 204:
                fail('delete-free-provider-refused', {'status': resp.status})
            if u in after.providers:
                fail('deleted-provider-still-present')
            left = ([k for k in after.inventories if k[0] == u] +
                    [k for k in after.rp_traits if k[0] == u] +
                    [k for k in after.rp_aggs if k[0] == u])
            if left:
                fail('delete-provider-left-rows', {'rows': left[:5]})
        return
    mt = RP_SUB.match(p)
    if mt and mt.group(2) == 'inventories':
        u, rc = mt.group(1), mt.group(3)
        if u not in before.providers:
            return
        if rc is not None:
            if (u, rc) not in before.inventories:
                return
            used = any(rp == u and k == rc
                       for (_c, rp, k) in before.allocations)
        else:
            if vt(req) < (1, 5):
                return
            used = any(rp == u for (_c, rp, _k) in before.allocations)
        if used:
            if resp.status != 409:
                fail('delete-inventory-in-use-accepted',
                     {'status': resp.status})
            unchanged(before, after, 'refused-delete-changed-state')
        elif resp.status != 204:
            fail('delete-free-inventory-refused', {'status': resp.status})
        else:
            left = [k for k in after.inventories
                    if k[0] == u and (rc is None or k[1] == rc)]
            if left:
                fail('deleted-inventory-still-present', {'rows': left})
        return
    if p.startswith('/resource_classes/') and vt(req) >= (1, 2):
        name = p[len('/resource_classes/'):]
        if name not in before.classes:
            return
        if not name.startswith('CUSTOM_'):
            if resp.status != 400:
                fail('delete-standard-class-not-400', {'status': resp.status})
            unchanged(before, after, 'refused-delete-changed-state')
        elif any(rc == name for (_p, rc) in before.inventories):
            if resp.status != 409:
                fail('delete-class-in-use-accepted', {'status': resp.status})
            unchanged(before, after, 'refused-delete-changed-state')
        elif resp.status != 204 or name in after.classes:
            fail('delete-free-class-refused', {'status': resp.status})
        return
    if p.startswith('/traits/') and vt(req) >= (1, 6):
        name = p[len('/traits/'):]
        if name not in before.traits:
            return
        if not name.startswith('CUSTOM_'):
            if resp.status != 400:
                fail('delete-standard-trait-not-400', {'status': resp.status})
            unchanged(before, after, 'refused-delete-changed-state')
        elif any(t == name for (_p, t) in before.rp_traits):
            if resp.status != 409:
                fail('delete-trait-in-use-accepted', {'status': resp.status})
            unchanged(before, after, 'refused-delete-changed-state')
        elif resp.status != 204 or name in after.traits:
            fail('delete-free-trait-refused', {'status': resp.status})


# ---------------------------------------------------------------------- C01
def placed_amounts(req):
    """[(consumer, rp, rc, amount)] of an allocation-writing request."""
    out = []
    b = req['b']
    if req['op'] == 'put_allocations':
        c = req['p'].split('/')[-1]
        a = b['allocations']
        if isinstance(a, list):
            # list form (< 1.12): a provider named twice counts once, with
            # its last entry
            last = {}
            for e in a:
                last[e['resource_provider']['uuid']] = e['resources']
            for rp, res in last.items():
                for rc, amt in res.items():
                    out.append((c, rp, rc, amt))
        else:
            for rp, x in a.items():
                for rc, amt in x['resources'].items():
                    out.append((c, rp, rc, amt))
    elif req['op'] in ('post_allocations', 'reshaper'):
        body = b if req['op'] == 'post_allocations' else b['allocations']
        for c, entry in body.items():
            for rp, x in entry['allocations'].items():
                for rc, amt in x['resources'].items():
                    out.append((c, rp, rc, amt))
    return out


def over_committed(d):
    usage = d.usage()
    out = set()
    for k, used in usage.items():
        inv = d.inventories.get(k)
        if inv is None:
            continue
        if used > (inv['total'] - inv['reserved']) * inv['allocation_ratio']:
            out.add(k)
    return out


def c01_oracle(m, req, resp, before, after):
    is_alloc_write = req['op'] in ('put_allocations', 'post_allocations',
                                   'reshaper')
    ub, ua = before.usage(), after.usage()
    placed_pairs = set()
    if is_alloc_write and resp.ok:
        for (c, rp, rc, amt) in placed_amounts(req):
            if not isinstance(amt, int) or amt <= 0:
                continue
            placed_pairs.add((rp, rc))
            inv = after.inventories.get((rp, rc))
            if inv is None:
                fail('placed-without-inventory', {'rp': rp, 'rc': rc})
            if not (inv['min_unit'] <= amt <= inv['max_unit']):
                fail('placed-outside-min-max',
                     {'amount': amt, 'inventory': inv})
            if amt % inv['step_size'] != 0:
                fail('placed-off-step', {'amount': amt, 'inventory': inv})
            cap = (inv['total'] - inv['reserved']) * inv['allocation_ratio']
            if ua.get((rp, rc), 0) > cap:
                fail('placed-over-capacity',
                     {'used': ua.get((rp, rc)), 'capacity': cap,
                      'inventory': inv, 'amount': amt})
    # usage grows only through an accepted allocation write placing there
    for k, used in ua.items():
        if used > ub.get(k, 0) and k not in placed_pairs:
            fail('usage-grew-without-allocation-write',
                 {'pair': k, 'before': ub.get(k, 0), 'after': used})
    # a pair becomes over-committed only through an inventory change
    newly = over_committed(after) - over_committed(before)
    for k in newly:
        if before.inventories.get(k) == after.inventories.get(k):
            fail('over-committed-without-inventory-change',
                 {'pair': k, 'used': ua.get(k),
                  'inventory': after.inventories.get(k)})
    # while over-committed usage never grows.  A reshape changes inventory
    # and allocations atomically, so "while" means: over-committed before the
    # request and still over-committed (against the new inventory) after it.
    still = over_committed(after)
    for k in over_committed(before):
        if k in still and ua.get(k, 0) > ub.get(k, 0):
            fail('usage-grew-while-over-committed',
                 {'pair': k, 'before': ub.get(k, 0), 'after': ua.get(k)})


# ---------------------------------------------------------------------- C04
def c04_oracle(m, req, resp, before, after):
    if req['m'] == 'GET':
        return
    if resp.status >= 400:
        unchanged(before, after, 'rejected-write-changed-state')
        return
    if not resp.ok:
        return
    # all-or-nothing: every entity named in the request has its new value
    op = req['op']
    if op in ('put_allocations', 'post_allocations', 'reshaper'):
        want = {}
        named = set(req.get('consumers') or [])
        for (c, rp, rc, amt) in placed_amounts(req):
            want[(c, rp, rc)] = want.get((c, rp, rc), 0) + amt
        got = {k: a for k, a in after.allocations.items() if k[0] in named}
        if got != want:
            fail('accepted-allocation-write-partially-applied',
                 {'want': sorted(want.items())[:8],
                  'got': sorted(got.items())[:8]})
    if op in ('put_inventories', 'reshaper'):
        items = ({req['target']: req['b']} if op == 'put_inventories'
                 else req['b']['inventories'])
        for u, x in items.items():
            want = set(x['inventories'])
            got = {rc for (p, rc) in after.inventories if p == u}
            if want != got:
                fail('accepted-inventory-replacement-partially-applied',
                     {'provider': u, 'want': sorted(want),
                      'got': sorted(got)})
            for rc, inv in x['inventories'].items():
                st = after.inventories[(u, rc)]
                for f, val in inv.items():
                    if st[f] != val:
                        fail('accepted-inventory-field-not-applied',
                             {'provider': u, 'rc': rc, 'field': f,
                              'want': val, 'got': st[f]})
    if op == 'put_rp_traits':
        u = req['target']
        got = {t for (p, t) in after.rp_traits if p == u}
        if got != set(req['b']['traits']):
            fail('accepted-traits-replacement-partially-applied',
                 {'want': sorted(req['b']['traits']), 'got': sorted(got)})
    if op == 'put_rp_aggregates':
        u = req['target']
        want = req['b'] if isinstance(req['b'], list) \
            else req['b']['aggregates']
        got = {a for (p, a) in after.rp_aggs if p == u}
        if got != set(want):
            fail('accepted-aggregates-replacement-partially-applied',
                 {'want': sorted(want), 'got': sorted(got)})


# ---------------------------------------------------------------------- C10
def c10_oracle(m, req, resp, before, after):
    # generations never decrease; identity = row id
    for u, p in before.providers.items():
        q = after.providers.get(u)
        if q is not None and q['id'] == p['id'] and \
                q['generation'] < p['generation']:
            fail('provider-generation-decreased', {'provider': u})
    for c, x in before.consumers.items():
        y = after.consumers.get(c)
        if y is not None and y['id'] == x['id'] and \
                y['generation'] < x['generation']:
            fail('consumer-generation-decreased', {'consumer': c})
    if req['m'] in ('GET', 'HEAD') or not resp.ok:
        kind = 'read' if req['m'] in ('GET', 'HEAD') else 'rejected'
        for u, p in before.providers.items():
            q = after.providers.get(u)
            if q is not None and q['id'] == p['id'] and \
                    q['generation'] != p['generation']:
                fail('%s-request-changed-provider-generation' % kind,
                     {'provider': u})
        for c, x in before.consumers.items():
            y = after.consumers.get(c)
            if y is not None and y['id'] == x['id'] and \
                    y['generation'] != x['generation']:
                fail('%s-request-changed-consumer-generation' % kind,
                     {'consumer': c})
        return
    v = vt(req)
    # successful write
    for u, p in before.providers.items():
        q = after.providers.get(u)
        if q is None or q['id'] != p['id']:
            continue
        changed = []
        if ({k: i for k, i in before.inventories.items() if k[0] == u} !=
                {k: i for k, i in after.inventories.items() if k[0] == u}):
            changed.append('inventories')
        if ({t for (x, t) in before.rp_traits if x == u} !=
                {t for (x, t) in after.rp_traits if x == u}):
            changed.append('traits')
        if v >= (1, 19) and (
                {a for (x, a) in before.rp_aggs if x == u} !=
                {a for (x, a) in after.rp_aggs if x == u}):
            changed.append('aggregates')
        if changed and not q['generation'] > p['generation']:
            fail('change-without-provider-generation-increase',
                 {'provider': u, 'changed': changed}, changed=changed[0])
    if req['op'] in ('put_allocations', 'post_allocations', 'reshaper'):
        for (c, rp, rc, amt) in placed_amounts(req):
            if amt > 0 and rp in before.providers and rp in after.providers:
                if not (after.providers[rp]['generation'] >
                        before.providers[rp]['generation']):
                    fail('allocation-write-without-provider-generation-'
                         'increase', {'provider': rp})
    if req['op'] in ('put_allocations', 'post_allocations', 'reshaper',
                     'delete_allocations'):
        for c in req.get('consumers') or []:
            x, y = before.consumers.get(c), after.consumers.get(c)
            if x is not None and y is not None and y['id'] == x['id']:
                if not y['generation'] > x['generation']:
                    fail('allocation-write-without-consumer-generation-'
                         'increase', {'consumer': c})
    # generation returned by a write equals the one subsequently read
    j = resp.json
    if isinstance(j, dict) and req.get('target') in after.providers:
        g = j.get('resource_provider_generation', j.get('generation'))
        if g is not None and req['op'] in (
                'put_inventories', 'put_inventory', 'post_inventory',
                'put_rp_traits', 'put_rp_aggregates', 'update_rp'):
            u = req['target']
            if g != after.providers[u]['generation']:
                fail('returned-generation-differs-from-stored',
                     {'returned': g,
                      'stored': after.providers[u]['generation']})
            r = m.svc.request('GET', '/resource_providers/' + u,
                              version='1.39')
            if r.status != 200 or r.json['generation'] != g:
                fail('returned-generation-differs-from-read',
                     {'returned': g, 'read': r.json and
                      r.json.get('generation')})
            r = m.svc.request('GET', '/resource_providers?uuid=' + u,
                              version='1.39')
            lst = (r.json or {}).get('resource_providers') or [{}]
            if r.status != 200 or lst[0].get('generation') != g:
                fail('returned-generation-differs-from-listing',
                     {'returned': g, 'listed': lst[0].get('generation')})


def c10_path(req, resp, before, after):
    """Which of the paths named in the property a successful write took."""
    if not resp.ok or req['m'] == 'GET':
        return None
    op = req['op']
    v = vt(req)
    if op == 'put_rp_aggregates':
        return 'aggregates>=1.19' if v >= (1, 19) else 'aggregates<1.19'
    if op == 'put_allocations':
        return 'alloc-clear' if 'clear' in req['labels'] else 'alloc-put'
    if op in ('post_allocations', 'reshaper', 'delete_allocations',
              'delete_inventory', 'delete_inventories', 'delete_rp_traits',
              'put_rp_traits', 'put_inventories', 'put_inventory',
              'post_inventory'):
        return op
    return None


# ---------------------------------------------------------------------- C12
def c12_oracle(m, req, resp, before, after):
    holders = {c for (c, _p, _k) in after.allocations}
    recs = set(after.consumers)
    if holders != recs:
        extra = sorted(recs - holders)
        missing = sorted(holders - recs)
        fail('consumer-without-allocations' if extra
             else 'allocations-without-consumer',
             {'consumers_without_allocations': extra,
              'allocations_without_consumer': missing},
             accepted=resp.ok)
    # project / user / type are those of the most recent SUCCESSFUL write:
    # a refused request, or a request that does not name the consumer, leaves
    # them alone
    named = set(req.get('consumers') or []) if resp.ok else set()
    for c, old in before.consumers.items():
        new = after.consumers.get(c)
        if new is None or new['id'] != old['id'] or c in named:
            continue
        if (new['project'], new['user'], new['type']) != \
                (old['project'], old['user'], old['type']):
            fail('consumer-attributes-changed-without-successful-write',
                 {'consumer': c,
                  'before': [old['project'], old['user'], old['type']],
                  'after': [new['project'], new['user'], new['type']]},
                 accepted=resp.ok)
    if req['op'] not in ('put_allocations', 'post_allocations', 'reshaper'):
        return
    if not resp.ok:
        return
    v = vt(req)
    cfg = m.svc.conf.placement
    body = req['b']
    if req['op'] == 'put_allocations':
        entries = {req['p'].split('/')[-1]: body}
    elif req['op'] == 'post_allocations':
        entries = body
    else:
        entries = body['allocations']
    for c, e in entries.items():
        placed = bool(e['allocations'])
        rec = after.consumers.get(c)
        if not placed:
            if rec is not None:
                fail('cleared-consumer-still-recorded', {'consumer': c})
            continue
        if rec is None:
            fail('written-consumer-not-recorded', {'consumer': c})
        if v >= (1, 8):
            want_p, want_u = e['project_id'], e['user_id']
        else:
            want_p = cfg.incomplete_consumer_project_id
            want_u = cfg.incomplete_consumer_user_id
        if (rec['project'], rec['user']) != (want_p, want_u):
            fail('consumer-project-user-not-those-of-last-write',
                 {'consumer': c, 'want': [want_p, want_u],
                  'got': [rec['project'], rec['user']]})
        old = before.consumers.get(c)
        if v >= (1, 38):
            want_t = e['consumer_type']
        else:
            want_t = old['type'] if old is not None else None
        if rec['type'] != want_t:
            fail('consumer-type-not-that-of-last-write',
                 {'consumer': c, 'want': want_t, 'got': rec['type']})
