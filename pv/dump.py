"""Raw, canonical, natural-keyed dump of the placement database.

Read with the stdlib sqlite3 module and literal SQL only: nothing from
placement.objects is involved, so the oracles that consume a dump share no
code with the service under test.
"""
import sqlite3


class Dump(object):
    """All twelve tables keyed naturally.  Attributes:

    providers   {uuid: {name, generation, parent(uuid|None|'?<id>'),
                        root(uuid|'?<id>'), id}}
    inventories {(rp_uuid, rc): {total, reserved, min_unit, max_unit,
                                 step_size, allocation_ratio}}
    allocations {(consumer_uuid, rp_uuid, rc): used}   (summed over rows)
    alloc_rows  number of rows in allocations
    consumers   {uuid: {generation, project, user, type, id}}
    traits      {name: id}; rp_traits {(rp_uuid, trait)}
    aggregates  {uuid: id}; rp_aggs  {(rp_uuid, agg_uuid)}
    classes     {name: id}
    projects/users/ctypes  sets of external ids / names
    dangling    list of strings describing references that resolve nowhere
    """

    def __init__(self):
        self.dangling = []

    def core(self):
        """Everything C04 requires to be unchanged by a rejected request."""
        return {
            'providers': {u: (p['name'], p['generation'], p['parent'],
                              p['root'])
                          for u, p in self.providers.items()},
            'inventories': self.inventories,
            'allocations': self.allocations,
            'consumers': {u: (c['generation'], c['project'], c['user'],
                              c['type'], c['id'])
                          for u, c in self.consumers.items()},
            'rp_traits': self.rp_traits,
            'rp_aggs': self.rp_aggs,
            'traits': set(self.traits),
            'classes': self.classes,
        }

    def usage(self):
        u = {}
        for (c, rp, rc), used in self.allocations.items():
            u[(rp, rc)] = u.get((rp, rc), 0) + used
        return u

    def children(self, uuid):
        return [u for u, p in self.providers.items() if p['parent'] == uuid]

    def computed_root(self, uuid):
        """Follow parent links; None if a cycle or a missing parent."""
        seen = set()
        cur = uuid
        while True:
            if cur in seen or cur not in self.providers:
                return None
            seen.add(cur)
            par = self.providers[cur]['parent']
            if par is None:
                return cur
            cur = par

    def rp_trait_map(self):
        m = {u: set() for u in self.providers}
        for rp, t in self.rp_traits:
            m.setdefault(rp, set()).add(t)
        return m

    def rp_agg_map(self):
        m = {u: set() for u in self.providers}
        for rp, a in self.rp_aggs:
            m.setdefault(rp, set()).add(a)
        return m


def dump(dbpath):
    con = sqlite3.connect('file:%s?mode=ro' % dbpath, uri=True)
    try:
        return _dump(con)
    finally:
        con.close()


def _dump(con):
    d = Dump()
    q = con.execute
    rp_by_id = {}
    rows = q('SELECT id, uuid, name, generation, root_provider_id, '
             'parent_provider_id FROM resource_providers').fetchall()
    for r in rows:
        rp_by_id[r[0]] = r[1]
    d.providers = {}
    for (id_, uuid, name, gen, root, parent) in rows:
        if parent is not None and parent not in rp_by_id:
            d.dangling.append('provider %s parent id %s missing' % (uuid, parent))
        if root is None or root not in rp_by_id:
            d.dangling.append('provider %s root id %s missing' % (uuid, root))
        d.providers[uuid] = {
            'id': id_, 'name': name, 'generation': gen,
            'parent': (None if parent is None
                       else rp_by_id.get(parent, '?%s' % parent)),
            'root': rp_by_id.get(root, '?%s' % root),
        }
    d.classes = {}
    rc_by_id = {}
    for id_, name in q('SELECT id, name FROM resource_classes'):
        d.classes[name] = id_
        rc_by_id[id_] = name
    d.class_rows = q('SELECT count(*) FROM resource_classes').fetchone()[0]
    d.inventories = {}
    d.inv_rows = 0
    for (rp, rc, total, res, mn, mx, st, ratio) in q(
            'SELECT resource_provider_id, resource_class_id, total, reserved,'
            ' min_unit, max_unit, step_size, allocation_ratio '
            'FROM inventories'):
        d.inv_rows += 1
        if rp not in rp_by_id:
            d.dangling.append('inventory provider id %s missing' % rp)
        if rc not in rc_by_id:
            d.dangling.append('inventory class id %s missing' % rc)
        key = (rp_by_id.get(rp, '?%s' % rp), rc_by_id.get(rc, '?%s' % rc))
        if key in d.inventories:
            d.dangling.append('duplicate inventory %s' % (key,))
        d.inventories[key] = {
            'total': total, 'reserved': res, 'min_unit': mn, 'max_unit': mx,
            'step_size': st, 'allocation_ratio': ratio}
    d.projects = {}
    for id_, ext in q('SELECT id, external_id FROM projects'):
        d.projects[id_] = ext
    d.users = {}
    for id_, ext in q('SELECT id, external_id FROM users'):
        d.users[id_] = ext
    d.ctypes = {}
    for id_, name in q('SELECT id, name FROM consumer_types'):
        d.ctypes[id_] = name
    d.consumers = {}
    for (id_, uuid, proj, user, gen, ct) in q(
            'SELECT id, uuid, project_id, user_id, generation, '
            'consumer_type_id FROM consumers'):
        if proj not in d.projects:
            d.dangling.append('consumer %s project id %s missing' % (uuid, proj))
        if user not in d.users:
            d.dangling.append('consumer %s user id %s missing' % (uuid, user))
        if ct is not None and ct not in d.ctypes:
            d.dangling.append('consumer %s type id %s missing' % (uuid, ct))
        d.consumers[uuid] = {
            'id': id_, 'generation': gen,
            'project': d.projects.get(proj, '?%s' % proj),
            'user': d.users.get(user, '?%s' % user),
            'type': (None if ct is None else d.ctypes.get(ct, '?%s' % ct))}
    d.allocations = {}
    d.alloc_rows = 0
    for (rp, cons, rc, used) in q(
            'SELECT resource_provider_id, consumer_id, resource_class_id, '
            'used FROM allocations'):
        d.alloc_rows += 1
        if rp not in rp_by_id:
            d.dangling.append('allocation provider id %s missing' % rp)
        if rc not in rc_by_id:
            d.dangling.append('allocation class id %s missing' % rc)
        if cons not in d.consumers:
            d.dangling.append('allocation consumer %s missing' % cons)
        key = (cons, rp_by_id.get(rp, '?%s' % rp), rc_by_id.get(rc, '?%s' % rc))
        d.allocations[key] = d.allocations.get(key, 0) + used
    d.traits = {}
    trait_by_id = {}
    for id_, name in q('SELECT id, name FROM traits'):
        d.traits[name] = id_
        trait_by_id[id_] = name
    d.trait_rows = q('SELECT count(*) FROM traits').fetchone()[0]
    d.rp_traits = set()
    for rp, t in q('SELECT resource_provider_id, trait_id '
                   'FROM resource_provider_traits'):
        if rp not in rp_by_id:
            d.dangling.append('rp_trait provider id %s missing' % rp)
        if t not in trait_by_id:
            d.dangling.append('rp_trait trait id %s missing' % t)
        d.rp_traits.add((rp_by_id.get(rp, '?%s' % rp),
                         trait_by_id.get(t, '?%s' % t)))
    d.aggregates = {}
    agg_by_id = {}
    for id_, uuid in q('SELECT id, uuid FROM placement_aggregates'):
        d.aggregates[uuid] = id_
        agg_by_id[id_] = uuid
    d.rp_aggs = set()
    for rp, a in q('SELECT resource_provider_id, aggregate_id '
                   'FROM resource_provider_aggregates'):
        if rp not in rp_by_id:
            d.dangling.append('rp_aggregate provider id %s missing' % rp)
        if a not in agg_by_id:
            d.dangling.append('rp_aggregate aggregate id %s missing' % a)
        d.rp_aggs.add((rp_by_id.get(rp, '?%s' % rp),
                       agg_by_id.get(a, '?%s' % a)))
    # allocation -> inventory on (rp, rc)
    for (cons, rp, rc) in d.allocations:
        if (rp, rc) not in d.inventories:
            d.dangling.append('allocation %s on (%s, %s) has no inventory'
                              % (cons, rp, rc))
    return d


def diff(a, b, keys=None):
    """List of human-readable differences between two core() projections."""
    out = []
    ca, cb = a.core(), b.core()
    for k in (keys or ca.keys()):
        va, vb = ca[k], cb[k]
        if va == vb:
            continue
        if isinstance(va, dict):
            for kk in sorted(set(va) | set(vb), key=repr):
                if va.get(kk) != vb.get(kk):
                    out.append('%s[%s]: %r -> %r' % (k, kk, va.get(kk),
                                                     vb.get(kk)))
        else:
            for x in sorted(va - vb, key=repr):
                out.append('%s: -%r' % (k, x))
            for x in sorted(vb - va, key=repr):
                out.append('%s: +%r' % (k, x))
    return out
